import CocoVerif.Model.Compile
import CocoVerif.Props.C12

/-!
# C10 — every array and string gets exactly one declaration with the requested size

Stage-level theorems about the declaration-producing steps of the model; that the whole output
declares every identifier once, before use and with the right size is judged on the real
output by the C10 oracle (five known-finding classes).
-/
namespace CocoVerif.Props.C10
open CocoVerif.Model CocoVerif.Model.Compile

theorem mem_sortStrings (y : String) (xs : List String) : y ∈ Compile.sortStrings xs ↔ y ∈ xs := by
  rw [C12.sortStrings_eq]; exact Props.ProcBank.mem_sortStrings y xs

theorem nodup_sortStrings (xs : List String) : (Compile.sortStrings xs).Nodup := by
  rw [C12.sortStrings_eq]
  exact Props.ProcBank.nodup_of_sorted _ (Props.ProcBank.sorted_sortStrings xs)

/-- Implicit arrays: each array that is referenced but not DIMensioned gets exactly one implicit
declaration (no name twice, none that the source already declares), in ascending order. -/
theorem implicit_arrays_once (refs dimmed : List String) :
    let names := Compile.sortStrings (refs.filter (fun n => !dimmed.contains n))
    names.Nodup ∧ (∀ n, n ∈ names ↔ (n ∈ refs ∧ n ∉ dimmed)) := by
  refine ⟨nodup_sortStrings _, ?_⟩
  intro n
  simp [mem_sortStrings, List.mem_filter, List.contains_iff_mem]

/-- an implicit declaration is one-dimensional with eleven elements (0..10), carries the
pre-initialisation flag and (since fix 2c284fb) the requested default string size; the per-name size
map stays empty: the name is not DIMensioned in the source, so the default is what it gets -/
theorem implicit_dim_shape (init : Bool) (dflt : Int) (name : String) :
    (implicitDim init dflt name).body =
      .dim [.arr (.var name (name.endsWith "$")) (.mk true [.lit (.int 11) false]) (name.endsWith "$")]
        init dflt [] [] ∧ (implicitDim init dflt name).num = none := by
  simp [implicitDim]

/-- they are placed before every line of the program -/
theorem implicit_before_use (names : List String) (init : Bool) (dflt : Int) (lines : List Line) :
    (names.map (implicitDim init dflt) ++ lines).take names.length = names.map (implicitDim init dflt) := by
  simp

/-- String scalars: with a non-default string size every string variable that a visitor meets and
that the source does not DIMension gets exactly one `DIM v:STRING[n]` line with the requested size. -/
theorem string_alloc_once (vars dimmed : List String) (n : Int) :
    let names := Compile.sortStrings (vars.filter (fun v => v.endsWith "$" && !dimmed.contains v))
    names.Nodup ∧ (∀ v, v ∈ names ↔ (v ∈ vars ∧ v.endsWith "$" = true ∧ v ∉ dimmed))
    ∧ ∀ v ∈ names, Emit.line 0 (codeLine ("DIM " ++ v ++ ":STRING[" ++ toString n ++ "]"))
        = "DIM " ++ v ++ ":STRING[" ++ toString n ++ "]" := by
  refine ⟨nodup_sortStrings _, ?_, ?_⟩
  · intro v
    simp [mem_sortStrings, List.mem_filter, List.contains_iff_mem, and_assoc]
  · intro v _
    simp [Emit.line, codeLine, Emit.stmt, Emit.pretextOf, Emit.exprs, Emit.ind, Emit.join]
    rfl

/-- a source DIM statement receives the requested default and the size map, nothing else changes -/
theorem dim_storage_set (dflt : Int) (sizes : List (String × Int)) (vs : List Expr) (i : Bool) (d : Int)
    (sz : List (String × Int)) (p : List Expr) :
    setDimStorage dflt sizes (.dim vs i d sz p) = .dim vs i dflt sizes p := rfl


/-! ### whole-tree statements: the requested size reaches *every* DIM of the program -/
open CocoVerif.Model.Passes

mutual
  /-- every DIM statement below `s` (at any nesting depth the passes reach) satisfies `P` -/
  def DimsSat (P : Bool → Int → List (String × Int) → Prop) : Stmt → Prop
    | .stmts _ ss _ => DimsSatList P ss
    | .if_ _ b _ => DimsSat P b
    | .ifElse _ b elifs els _ => DimsSat P b ∧ DimsSatList P elifs ∧ DimsSatOpt P els
    | .dim _ i d sz _ => P i d sz
    | _ => True
  def DimsSatList (P : Bool → Int → List (String × Int) → Prop) : List Stmt → Prop
    | [] => True
    | s :: ss => DimsSat P s ∧ DimsSatList P ss
  def DimsSatOpt (P : Bool → Int → List (String × Int) → Prop) : Option Stmt → Prop
    | some s => DimsSat P s
    | none => True
end

/-- every DIM statement below `s` carries default `d` -/
abbrev DimsHave (d : Int) : Stmt → Prop := DimsSat (fun _ d' _ => d' = d)

/- a pass that rewrites DIM statements so that `P` holds and leaves every other statement alone
establishes `P` on the whole tree -/
mutual
  theorem pass_reaches_stmt (P : Bool → Int → List (String × Int) → Prop) (f : Stmt → Stmt)
      (hdim : ∀ vs i d sz p, ∃ vs' i' d' sz' p', f (.dim vs i d sz p) = .dim vs' i' d' sz' p' ∧ P i' d' sz')
      (hother : ∀ s, (∀ vs i d sz p, s ≠ .dim vs i d sz p) → f s = s) :
      (s : Stmt) → DimsSat P (mapStmt f s)
    | .stmts m ss p => by
        simp only [mapStmt]; rw [hother _ (by intros; simp)]; simp only [DimsSat]
        exact pass_reaches_list P f hdim hother ss
    | .if_ c b p => by
        simp only [mapStmt]; rw [hother _ (by intros; simp)]; simp only [DimsSat]
        exact pass_reaches_stmt P f hdim hother b
    | .ifElse c b elifs els p => by
        simp only [mapStmt]; rw [hother _ (by intros; simp)]; simp only [DimsSat]
        exact ⟨pass_reaches_stmt P f hdim hother b, pass_reaches_list P f hdim hother elifs,
               pass_reaches_opt P f hdim hother els⟩
    | .dim vs i d sz p => by
        obtain ⟨vs', i', d', sz', p', h, hp⟩ := hdim vs i d sz p
        simp only [mapStmt]; rw [h]; simpa [DimsSat] using hp
    | .assign .. | .run .. | .goto .. | .onErr .. | .onBrk .. | .onGo .. | .comment .. | .print ..
    | .sound .. | .poke .. | .cls .. | .data .. | .kw .. | .for_ .. | .next .. | .read .. | .input ..
    | .width .. | .code .. | .expStmt .. | .rawStmt .. => by
        simp only [mapStmt]; rw [hother _ (by intros; simp)]; simp [DimsSat]
  theorem pass_reaches_list (P : Bool → Int → List (String × Int) → Prop) (f : Stmt → Stmt)
      (hdim : ∀ vs i d sz p, ∃ vs' i' d' sz' p', f (.dim vs i d sz p) = .dim vs' i' d' sz' p' ∧ P i' d' sz')
      (hother : ∀ s, (∀ vs i d sz p, s ≠ .dim vs i d sz p) → f s = s) :
      (ss : List Stmt) → DimsSatList P (mapStmts f ss)
    | [] => by simp [mapStmts, DimsSatList]
    | s :: ss => by
        simp only [mapStmts, DimsSatList]
        exact ⟨pass_reaches_stmt P f hdim hother s, pass_reaches_list P f hdim hother ss⟩
  theorem pass_reaches_opt (P : Bool → Int → List (String × Int) → Prop) (f : Stmt → Stmt)
      (hdim : ∀ vs i d sz p, ∃ vs' i' d' sz' p', f (.dim vs i d sz p) = .dim vs' i' d' sz' p' ∧ P i' d' sz')
      (hother : ∀ s, (∀ vs i d sz p, s ≠ .dim vs i d sz p) → f s = s) :
      (o : Option Stmt) → DimsSatOpt P (mapOptStmt f o)
    | none => by simp [mapOptStmt, DimsSatOpt]
    | some s => by simp only [mapOptStmt, DimsSatOpt]; exact pass_reaches_stmt P f hdim hother s
end

theorem setDimStorage_other (d : Int) (sz : List (String × Int)) (s : Stmt)
    (h : ∀ vs i d sz p, s ≠ .dim vs i d sz p) : setDimStorage d sz s = s := by
  cases s <;> first | rfl | exact absurd rfl (h _ _ _ _ _)

theorem setDimInit_other (flag : Bool) (s : Stmt)
    (h : ∀ vs i d sz p, s ≠ .dim vs i d sz p) : setDimInit flag s = s := by
  cases s <;> first | rfl | exact absurd rfl (h _ _ _ _ _)

theorem storage_reaches_stmt (d : Int) (sz : List (String × Int)) (s : Stmt) :
    DimsSat (fun _ d' sz' => d' = d ∧ sz' = sz) (mapStmt (setDimStorage d sz) s) :=
  pass_reaches_stmt _ _ (fun vs i _ _ p => ⟨vs, i, d, sz, p, rfl, rfl, rfl⟩) (setDimStorage_other d sz) s

/-- the pre-initialisation flag reaches every DIM of the tree (C03: no declared array is left
uninitialised when the tool was asked to pre-initialise; the flag is what makes `Emit` write the
fill loops, `C03.fill_loops`) -/
theorem init_reaches_stmt (flag : Bool) (s : Stmt) :
    DimsSat (fun i _ _ => i = flag) (mapStmt (setDimInit flag) s) :=
  pass_reaches_stmt _ _ (fun vs _ d sz p => ⟨vs, flag, d, sz, p, rfl, rfl⟩) (setDimInit_other flag) s

mutual
  theorem DimsSat_mono {P Q : Bool → Int → List (String × Int) → Prop} (h : ∀ i d sz, P i d sz → Q i d sz) :
      (s : Stmt) → DimsSat P s → DimsSat Q s
    | .stmts _ ss _ => by simp only [DimsSat]; exact DimsSatList_mono h ss
    | .if_ _ b _ => by simp only [DimsSat]; exact DimsSat_mono h b
    | .ifElse _ b elifs els _ => by
        simp only [DimsSat]
        exact fun ⟨h1, h2, h3⟩ => ⟨DimsSat_mono h b h1, DimsSatList_mono h elifs h2, DimsSatOpt_mono h els h3⟩
    | .dim _ i d sz _ => by simp only [DimsSat]; exact h i d sz
    | .assign .. | .run .. | .goto .. | .onErr .. | .onBrk .. | .onGo .. | .comment .. | .print ..
    | .sound .. | .poke .. | .cls .. | .data .. | .kw .. | .for_ .. | .next .. | .read .. | .input ..
    | .width .. | .code .. | .expStmt .. | .rawStmt .. => by simp [DimsSat]
  theorem DimsSatList_mono {P Q : Bool → Int → List (String × Int) → Prop} (h : ∀ i d sz, P i d sz → Q i d sz) :
      (ss : List Stmt) → DimsSatList P ss → DimsSatList Q ss
    | [] => by simp [DimsSatList]
    | s :: ss => by
        simp only [DimsSatList]
        exact fun ⟨h1, h2⟩ => ⟨DimsSat_mono h s h1, DimsSatList_mono h ss h2⟩
  theorem DimsSatOpt_mono {P Q : Bool → Int → List (String × Int) → Prop} (h : ∀ i d sz, P i d sz → Q i d sz) :
      (o : Option Stmt) → DimsSatOpt P o → DimsSatOpt Q o
    | none => by simp [DimsSatOpt]
    | some s => by simp only [DimsSatOpt]; exact DimsSat_mono h s
end

/-- **Every DIM of the program gets the requested default size** — the source's DIM statements
at any depth (inside multi-statement lines, IF bodies, ELSE-IF chains) through the storage pass,
and, since repair 2c284fb, the declarations the tool writes for arrays the source never DIMs.
For every program, every option value and every list of implicit array names. -/
theorem storage_reaches_every_dim (d : Int) (sz : List (String × Int)) (init : Bool)
    (implicit : List String) (p : Prog) :
    ∀ l ∈ implicit.map (implicitDim init d) ++ (mapProg (setDimStorage d sz) p).lines,
      DimsHave d l.body := by
  intro l hl
  rcases List.mem_append.mp hl with h | h
  · obtain ⟨n, _, rfl⟩ := List.mem_map.mp h
    simp [implicitDim, DimsHave, DimsSat]
  · simp only [mapProg, List.mem_map] at h
    obtain ⟨l0, _, rfl⟩ := h
    exact DimsSat_mono (fun _ _ _ h => h.1) _ (storage_reaches_stmt d sz l0.body)

/-- the pre-initialisation flag reaches every DIM statement of the program, at any depth: with
`--initialize-vars` no declared array is left without its fill loop (C03's last clause for arrays) -/
theorem init_reaches_every_dim (flag : Bool) (p : Prog) :
    ∀ l ∈ (mapProg (setDimInit flag) p).lines, DimsSat (fun i _ _ => i = flag) l.body := by
  intro l h
  simp only [mapProg, List.mem_map] at h
  obtain ⟨l0, _, rfl⟩ := h
  exact init_reaches_stmt flag l0.body

/-- non-vacuity: a DIM nested in an IF inside a multi-statement line, default 32 before the pass -/
example : DimsHave 80 (mapStmt (setDimStorage 80 [])
    (.stmts true [.if_ (.raw "c") (.stmts false [.dim [] false 32 [] []] []) []] [])) :=
  DimsSat_mono (fun _ _ _ h => h.1) _ (storage_reaches_stmt 80 [] _)

/-- and the predicate is not trivially true: the same tree before the pass does not satisfy it -/
example : ¬ DimsHave 80 (.stmts true [.if_ (.raw "c") (.stmts false [.dim [] false 32 [] []] []) []] []) := by
  simp [DimsHave, DimsSat, DimsSatList]

end CocoVerif.Props.C10
