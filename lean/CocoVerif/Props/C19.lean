import CocoVerif.Props.Lemmas.Img
import CocoVerif.Props.C18

/-!
# C19 — damaged image files are reported, never silently decoded to a broken image

Statements quantify over **arbitrary** byte strings.  Where the full statement is false on
the tree as given, the kernel-checked negation witness is next to the partial theorem.
-/
namespace CocoVerif.Props.C19
open CocoVerif.Model.Img CocoVerif.Spec.Img CocoVerif.Props.Img

/-- HRS, even width: whatever the bytes, success means the complete image was written. -/
theorem hrs_complete_partial (w h skip : Nat) (bs out : List Nat) (hw : w % 2 = 0)
    (hok : hrs w h skip bs = .ok out) :
    ∃ payload, out = ppmHeader "P6" w h ++ payload ∧ payload.length = 3 * w * h :=
  C18.hrs_size w h skip bs out hw hok

/-- MAX: a file cut after two data bytes is "decoded": 48 samples under a 256×2 header. -/
theorem max_short_read_witness :
    CocoVerif.Model.Img.max {} [0, 0, 64, 0, 0, 255, 255]
      = .ok (ppmHeader "P6" 256 2 ++ List.replicate 48 255) := by rfl

/-- MGE, **arbitrary bytes**: a successful run either went through the run-length branch (the known
finding `mge-rle-total-not-32000` lives there) or wrote the complete 320 × 200 image -/
theorem mge_raw_complete_partial (bs out : List Nat) (hok : mge bs = .ok out) :
    (∃ pal rest body, mgeRle pal rest 32000 = .ok body ∧ out = ppmHeader "P6" 320 200 ++ body)
    ∨ ∃ payload, out = ppmHeader "P6" 320 200 ++ payload ∧ payload.length = 3 * 320 * 200 := by
  unfold mge at hok
  simp only [bind, Except.bind, pure, Except.pure] at hok
  repeat' (split at hok <;> try (simp at hok; done))
  all_goals first
    | (left
       simp only [Except.ok.injEq] at hok
       rename_i body hbody
       exact ⟨_, _, body, hbody, hok.symm⟩)
    | (right
       simp only [Except.ok.injEq] at hok
       rename_i v hv
       obtain ⟨body, rd, r⟩ := v
       have := (readDump_spec _ _ _ _ _ _ hv).1
       exact ⟨body, hok.symm, by rw [this]⟩)

end CocoVerif.Props.C19
