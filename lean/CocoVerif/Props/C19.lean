import CocoVerif.Props.Lemmas.Img
import CocoVerif.Props.C18

/-!
# C19 — damaged image files are reported, never silently decoded to a broken image

Statements quantify over **arbitrary** byte strings.  Where the full statement is false on
the tree as given, the kernel-checked negation witness is next to the partial theorem.
-/
namespace CocoVerif.Props.C19
open CocoVerif.Model.Img CocoVerif.Spec.Img CocoVerif.Props.Img

/-- HRS, even width: whatever the bytes, success means the complete image was written. -/
theorem hrs_complete_partial (w h skip : Nat) (bs out : List Nat) (hw : w % 2 = 0)
    (hok : hrs w h skip bs = .ok out) :
    ∃ payload, out = ppmHeader "P6" w h ++ payload ∧ payload.length = 3 * w * h :=
  C18.hrs_size w h skip bs out hw hok

/-- MAX: a file cut after two data bytes is "decoded": 48 samples under a 256×2 header. -/
theorem max_short_read_witness :
    CocoVerif.Model.Img.max {} [0, 0, 64, 0, 0, 255, 255]
      = .ok (ppmHeader "P6" 256 2 ++ List.replicate 48 255) := by rfl

end CocoVerif.Props.C19
