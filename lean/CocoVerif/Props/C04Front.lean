import CocoVerif.Model.Front

/-!
# C04, front-end half: where each operand of a device statement goes

One theorem per visitor method of the device statements, for **all** operand values (`a b c …`
stand for whatever the operand sub-trees produced; `s…` for the blank / keyword / comma children,
which no method looks at).  Each states the runtime procedure, the position of every source operand
in its argument list and the default written for an omitted one.  Which *parameter* each position
is, is `C04.device_params_match` (against the library's PARAM lines).  The model is tied to
parser.py by the `front` / `e2e` suites and, form by form, by the forms suite.
-/
namespace CocoVerif.Props.C04Front
open CocoVerif.Model CocoVerif.Model.Front

def call (inv : String) (args : List Val) : Except String Val := .ok (runCall inv args)

theorem hcolor_two (env : Env) (t : String) (s0 s1 s3 s4 s5 s7 f b : Val) :
    visitNamed env "hcolor_statement" t [s0, s1, f, s3, s4, s5, b, s7] = call "run ecb_hcolor" [f, b, display] := by rfl

theorem hcolor_one (env : Env) (t : String) (s0 s1 s3 f : Val) :
    visitNamed env "hcolor1_statement" t [s0, s1, f, s3] = call "run ecb_hcolor" [f, litFlt "-1.0", display] := by rfl

theorem locate (env : Env) (t : String) (s0 s1 s3 s4 s5 s7 col row : Val) :
    visitNamed env "locate_statement" t [s0, s1, col, s3, s4, s5, row, s7] = call "run ecb_locate" [col, row] := by rfl

theorem palette (env : Env) (t : String) (s0 s1 s3 s4 s5 s7 reg colour : Val) :
    visitNamed env "palette_statement" t [s0, s1, reg, s3, s4, s5, colour, s7] =
      call "run ecb_set_palette" [reg, colour, display] := by rfl

theorem sound (env : Env) (t : String) (s0 s1 s3 s4 s5 s7 : Val) (f d : Expr) :
    visitNamed env "sound" t [s0, s1, .e f, s3, s4, s5, .e d, s7] = .ok (.stmt (.sound f d [])) := by rfl

theorem poke (env : Env) (t : String) (s0 s1 s3 s4 s5 s7 : Val) (a v : Expr) :
    visitNamed env "poke_statement" t [s0, s1, .e a, s3, s4, s5, .e v, s7] = .ok (.stmt (.poke a v [])) := by rfl

theorem play (env : Env) (t : String) (s0 s1 s3 m : Val) :
    visitNamed env "play_statement" t [s0, s1, m, s3] = call "run ecb_play" [m, varOf "play" false] := by rfl

theorem hdraw (env : Env) (t : String) (s0 s1 s3 m : Val) :
    visitNamed env "hdraw_statement" t [s0, s1, m, s3] = call "run ecb_hdraw" [m, display] := by rfl

theorem hbuff (env : Env) (t : String) (s0 s1 s3 s4 s5 s7 : Val) (n size : Expr) :
    visitNamed env "hbuff_statement" t [s0, s1, .e n, s3, s4, s5, .e size, s7] =
      .ok (.stmt (.run "hbuff" "run _ecb_hbuff" (.mk true [n, size, .var "pid" false, .var "display" false]) [])) := by rfl

theorem hset (env : Env) (t : String) (s0 s1 x y : Val) :
    visitNamed env "hset_statement" t [s0, s1, .coords x y] = call "run ecb_hset" [x, y, display]
    ∧ visitNamed env "hreset_statement" t [s0, s1, .coords x y] = call "run ecb_hreset" [x, y, display] := by
  exact ⟨by rfl, by rfl⟩

theorem hset3 (env : Env) (t : String) (s0 s1 x y z : Val) :
    visitNamed env "hset3_statement" t [s0, s1, .coords3 x y z] = call "run ecb_hset3" [x, y, z, display] := by rfl

theorem coords (env : Env) (t : String) (s0 s1 s3 s4 s5 s7 s8 s9 x y : Val) :
    visitNamed env "coords" t [s0, s1, x, s3, s4, s5, y, s7, s8, s9] = .ok (.coords x y) := by rfl

theorem hget (env : Env) (t : String) (s0 s1 s3 s4 s6 s7 s9 x1 y1 x2 y2 buf : Val) :
    visitNamed env "hget_statement" t [s0, s1, .coords x1 y1, s3, s4, .coords x2 y2, s6, s7, buf, s9] =
      call "run ecb_hget" [x1, y1, x2, y2, buf, varOf "pid" false, display] := by rfl

theorem hput (env : Env) (t : String) (s0 s1 s3 s4 s6 s7 s9 s10 s11 s13 x1 y1 x2 y2 buf : Val) (action : String) :
    visitNamed env "hput_statement" t [s0, s1, .coords x1 y1, s3, s4, .coords x2 y2, s6, s7, buf, s9, s10, s11, .str action, s13] =
      call "run ecb_hput" [x1, y1, x2, y2, buf, litStr action false, varOf "pid" false, display] := by rfl

/-- HLINE: absolute form passes "d" and the start point, relative form "r" and 0,0; then the end
point, PSET/PRESET and the line type (L / B / BF) -/
theorem hline_absolute (env : Env) (t : String) (s0 s1 s3 sx sy dx dy : Val) (mode lt : String) :
    visitNamed env "hline_statement" t [s0, s1, .coords sx sy, s3, .suffix (.coords dx dy) (.str mode) (.str lt)] =
      call "run ecb_hline" [litStr "d" false, sx, sy, dx, dy, litStr mode false, litStr lt false, display] := by rfl

theorem hline_relative (env : Env) (t : String) (s0 s1 dx dy : Val) (mode lt : String) :
    visitNamed env "hline_relative_statement" t [s0, s1, .suffix (.coords dx dy) (.str mode) (.str lt)] =
      call "run ecb_hline" [litStr "r" false, litFlt "0.0", litFlt "0.0", dx, dy, litStr mode false, litStr lt false, display] := by rfl

theorem line_type (env : Env) (t : String) :
    visitNamed env "line_options_option" t [] = .ok (.str "L")
    ∧ visitNamed env "line_options_option" t [.str "B"] = .ok (.str "B")
    ∧ visitNamed env "line_options_option" t [.str "BF"] = .ok (.str "BF") := by
  exact ⟨by rfl, by rfl, by rfl⟩

/-- HCIRCLE: centre, radius, colour or — when omitted — the current foreground colour, ratio 1 -/
theorem hcircle (x y r : Val) (c : Val) :
    toStmt (.circle x y r (some c)) =
      .run "run" "run ecb_hcircle" (.mk true [toExpr x, toExpr y, toExpr r, toExpr c, .lit (.flt "1.0") false, .var "display" false]) []
    ∧ toStmt (.circle x y r none) =
      .run "run" "run ecb_hcircle" (.mk true [toExpr x, toExpr y, toExpr r,
        .stmtExp (.run "run" "float" (.mk true [.var "display.hfore" false]) []), .lit (.flt "1.0") false, .var "display" false]) [] := by
  exact ⟨by rfl, by rfl⟩

theorem hellipse (x y r ratio c : Val) :
    toStmt (.ellipse x y r (some c) ratio) =
      .run "run" "run ecb_hcircle" (.mk true [toExpr x, toExpr y, toExpr r, toExpr c, toExpr ratio, .var "display" false]) [] := by rfl

theorem harc (env : Env) (t : String) (s1 s2 s4 s5 s6 s8 x y r c ratio a b : Val) :
    visitNamed env "harc_statement" t [.ellipse x y r (some c) ratio, s1, s2, a, s4, s5, s6, b, s8] =
      .ok (.stmt (.run "run" "run ecb_harc" (.mk true [toExpr x, toExpr y, toExpr r, toExpr c, toExpr ratio, toExpr a, toExpr b,
        .var "display" false]) [])) := by rfl

/-- HPAINT: the colour and the border colour default to the current foreground colour -/
theorem hpaint (env : Env) (t : String) (s0 s1 s3 x y c b : Val) :
    visitNamed env "hpaint_statement" t [s0, s1, .coords x y, s3, .list [c, b]] = call "run ecb_hpaint" [x, y, c, b, display]
    ∧ visitNamed env "hpaint_statement" t [s0, s1, .coords x y, s3, .list [c]] =
        call "run ecb_hpaint" [x, y, c, .e (.call "FLOAT" (.mk true [.var "display.hfore" false]) false), display]
    ∧ visitNamed env "hpaint_statement" t [s0, s1, .coords x y, s3, .str ""] =
        call "run ecb_hpaint" [x, y, .e (.call "FLOAT" (.mk true [.var "display.hfore" false]) false),
          .e (.call "FLOAT" (.mk true [.var "display.hfore" false]) false), display] := by
  exact ⟨by rfl, by rfl, by rfl⟩

/-- ATTR: foreground and background in source order, then blink and underline as 1.0 / 0.0 by
the presence of B / U among the options (in any order, any number of times) -/
theorem attr_flags (env : Env) (t : String) (s0 s1 s3 s4 s5 s7 bg fg : Val) :
    visitNamed env "attr_statement" t [s0, s1, bg, s3, s4, s5, fg, s7, .list [.str "U", .str "B"]] =
      call "run ecb_attr" [bg, fg, litFlt "1.0", litFlt "1.0", display]
    ∧ visitNamed env "attr_statement" t [s0, s1, bg, s3, s4, s5, fg, s7, .list [.str "U"]] =
      call "run ecb_attr" [bg, fg, litFlt "0.0", litFlt "1.0", display]
    ∧ visitNamed env "attr_statement" t [s0, s1, bg, s3, s4, s5, fg, s7, .list []] =
      call "run ecb_attr" [bg, fg, litFlt "0.0", litFlt "0.0", display] := by
  exact ⟨by rfl, by rfl, by rfl⟩

/-- JOYSTK(n) is a two-argument call of a six-parameter procedure (the known finding) -/
theorem joystk (env : Env) (t : String) (s0 s1 s2 s3 s5 s6 s7 n : Val) :
    visitNamed env "joystk_to_statement" t [s0, s1, s2, s3, n, s5, s6, s7] =
      .ok (.e (.fexp true "RUN ecb_joystk" (.mk true [toExpr n]) false none)) := by rfl

end CocoVerif.Props.C04Front
