/-
`Model.Ast` — mirrors the classes of `coco/b09/elements.py` one constructor per class, flags kept
as the code keeps them (e.g. `BasicBinaryExp` always claims to be a string expression — recorded
in `Expr.isStrExpr`, not here).  `pre` is `_pre_assignment_statements` (the hoisted calls, which
are `BasicFunctionCall` *expression* objects).
-/
import CocoVerif.Model.Sexp

namespace CocoVerif.Model

inductive Lit
  | flt (repr : String)      -- a Python float, carried by its `repr`
  | int (n : Int)
  | str (s : String)
  deriving Repr, BEq, DecidableEq, Inhabited

mutual
  inductive Expr
    | lit (l : Lit) (isStr : Bool)
    | hex (v : Nat) (isFloat : Bool)
    | var (name : String) (isStr : Bool)
    | arr (v : Expr) (idx : EList) (isStr : Bool)
    | bin (boolean : Bool) (l : Expr) (op : String) (r : Expr)
    | un (boolean : Bool) (op : String) (e : Expr)
    | paren (boolean : Bool) (e : Expr) (isStr : Bool)
    | call (f : String) (args : EList) (isStr : Bool)
    | fexp (joystk : Bool) (f : String) (args : EList) (isStr : Bool) (v : Option Expr)
    | varptr (e : Expr)
    | ctl (c : String)
    | stmtExp (s : Stmt)
    | op (o : String)
    | raw (text : String)
  inductive EList
    | mk (parens : Bool) (es : List Expr)
    | raw (text : String)
  inductive Stmt
    | stmts (multi : Bool) (ss : List Stmt) (pre : List Expr)
    | assign (let_ : Bool) (v : Expr) (e : Expr) (pre : List Expr)
    | run (kind : String) (inv : String) (args : EList) (pre : List Expr)
    | goto (n : Int) (implicit : Bool) (gosub : Bool) (pre : List Expr)
    | onErr (n : Int) (pre : List Expr)
    | onBrk (n : Int) (pre : List Expr)
    | onGo (e : Expr) (ns : List Int) (gosub : Bool) (pre : List Expr)
    | if_ (c : Expr) (body : Stmt) (pre : List Expr)
    | ifElse (c : Expr) (body : Stmt) (elifs : List Stmt) (els : Option Stmt) (pre : List Expr)
    | comment (c : String)
    | print (args : List Expr) (pre : List Expr)
    | sound (a : Expr) (b : Expr) (pre : List Expr)
    | poke (a : Expr) (b : Expr) (pre : List Expr)
    | cls (e : Option Expr) (pre : List Expr)
    | data (items : EList) (pre : List Expr)
    | kw (k : String) (pre : List Expr)
    | for_ (v : Expr) (a : Expr) (b : Expr) (step : Option Expr) (pre : List Expr)
    | next (vars : EList) (pre : List Expr)
    | dim (vars : List Expr) (init : Bool) (dflt : Int) (sizes : List (String × Int)) (pre : List Expr)
    | read (rhs : List Expr) (pre : List Expr) (strTemps : Nat)
    | input (msg : Option Expr) (rhs : List Expr)
    | width (e : Expr) (pre : List Expr)
    | code (c : String) (pre : List Expr)
    | expStmt (e : Expr)
    | rawStmt (t : String)
end

instance : Inhabited Expr := ⟨.raw ""⟩
instance : Inhabited EList := ⟨.raw ""⟩
instance : Inhabited Stmt := ⟨.rawStmt ""⟩

structure Line where
  num : Option Int
  body : Stmt
  referenced : Bool := true
  deriving Inhabited

structure Prog where
  pfx : List Line := []
  lines : List Line := []
  sfx : List Line := []
  procname : String := ""
  deriving Inhabited

/-! ### reading the dump -/

namespace Ast
open Sx

def sxStr : Sx → Option String | .str s => some s | _ => none
def sxInt : Sx → Option Int | .int n => some n | _ => none
def sxBool : Sx → Option Bool | .bool b => some b | _ => none
def sxList : Sx → Option (List Sx) | .list xs => some xs | _ => none

def litOf : Sx → Option Lit
  | .node "LInt" [.int n] => some (.int n)
  | .node "LFlt" [.str s] => some (.flt s)
  | .node "LStr" [.str s] => some (.str s)
  | _ => none

mutual
  partial def exprOf : Sx → Option Expr
    | .node "Lit" [l, .bool b] => do pure (.lit (← litOf l) b)
    | .node "Hex" [.int n, .bool b] => some (.hex n.toNat b)
    | .node "Var" [.str n, .bool b] => some (.var n b)
    | .node "Arr" [v, el, .bool b] => do pure (.arr (← exprOf v) (← elistOf el) b)
    | .node "Bin" [.bool bb, l, .str op, r] => do pure (.bin bb (← exprOf l) op (← exprOf r))
    | .node "Un" [.bool bb, .str op, e] => do pure (.un bb op (← exprOf e))
    | .node "Paren" [.bool bb, e, .bool b] => do pure (.paren bb (← exprOf e) b)
    | .node "Call" [.str f, el, .bool b] => do pure (.call f (← elistOf el) b)
    | .node "FExp" [.bool j, .str f, el, .bool b, v] => do
        let v' ← match v with | .nil => pure none | x => (exprOf x).map some
        pure (.fexp j f (← elistOf el) b v')
    | .node "Varptr" [e] => do pure (.varptr (← exprOf e))
    | .node "Ctl" [.str c] => some (.ctl c)
    | .node "StmtExp" [s] => do pure (.stmtExp (← stmtOf s))
    | .node "Op" [.str o] => some (.op o)
    | .node "Raw" [.str t] => some (.raw t)
    | _ => none
  partial def elistOf : Sx → Option EList
    | .node "EL" [.bool p, .list es] => do pure (.mk p (← es.mapM exprOf))
    | .node "Raw" [.str t] => some (.raw t)
    | _ => none
  partial def optExprOf : Sx → Option (Option Expr)
    | .nil => some none
    | x => (exprOf x).map some
  partial def preOf : Sx → Option (List Expr)
    | .list es => es.mapM exprOf
    | _ => none
  partial def stmtOf : Sx → Option Stmt
    | .node "Stmts" [.bool m, .list ss, p] => do pure (.stmts m (← ss.mapM stmtOf) (← preOf p))
    | .node "Assign" [.bool l, v, e, p] => do pure (.assign l (← exprOf v) (← exprOf e) (← preOf p))
    | .node "Run" [.str k, .str inv, el, p] => do pure (.run k inv (← elistOf el) (← preOf p))
    | .node "Goto" [.int n, .bool i, .bool g, p] => do pure (.goto n i g (← preOf p))
    | .node "OnErr" [.int n, p] => do pure (.onErr n (← preOf p))
    | .node "OnBrk" [.int n, p] => do pure (.onBrk n (← preOf p))
    | .node "OnGo" [e, .list ns, .bool g, p] => do
        pure (.onGo (← exprOf e) (← ns.mapM sxInt) g (← preOf p))
    | .node "If" [c, b, p] => do pure (.if_ (← exprOf c) (← stmtOf b) (← preOf p))
    | .node "IfElse" [c, b, .list el, e, p] => do
        let e' ← match e with | .nil => pure none | x => (stmtOf x).map some
        pure (.ifElse (← exprOf c) (← stmtOf b) (← el.mapM stmtOf) e' (← preOf p))
    | .node "Comment" [.str c] => some (.comment c)
    | .node "Print" [.list a, p] => do pure (.print (← a.mapM exprOf) (← preOf p))
    | .node "Sound" [a, b, p] => do pure (.sound (← exprOf a) (← exprOf b) (← preOf p))
    | .node "Poke" [a, b, p] => do pure (.poke (← exprOf a) (← exprOf b) (← preOf p))
    | .node "Cls" [e, p] => do pure (.cls (← optExprOf e) (← preOf p))
    | .node "Data" [el, p] => do pure (.data (← elistOf el) (← preOf p))
    | .node "Kw" [.str k, p] => do pure (.kw k (← preOf p))
    | .node "For" [v, a, b, s, p] => do
        pure (.for_ (← exprOf v) (← exprOf a) (← exprOf b) (← optExprOf s) (← preOf p))
    | .node "Next" [el, p] => do pure (.next (← elistOf el) (← preOf p))
    | .node "Dim" [.list vs, .bool i, .int d, .list sz, p] => do
        let sizes ← sz.mapM (fun kv => match kv with
          | .node "KV" [.str k, .int v] => some (k, v) | _ => none)
        pure (.dim (← vs.mapM exprOf) i d sizes (← preOf p))
    | .node "Read" [.list r, p] => do pure (.read (← r.mapM exprOf) (← preOf p) 0)
    | .node "Input" [m, .list r] => do pure (.input (← optExprOf m) (← r.mapM exprOf))
    | .node "Width" [e, p] => do pure (.width (← exprOf e) (← preOf p))
    | .node "Code" [.str c, p] => do pure (.code c (← preOf p))
    | .node "ExpStmt" [e] => do pure (.expStmt (← exprOf e))
    | .node "RawStmt" [.str t] => some (.rawStmt t)
    | _ => none
end

def lineOf : Sx → Option Line
  | .node "Line" [n, b, .bool r] => do
      let num ← match n with | .nil => pure none | .int k => pure (some k) | _ => none
      pure { num := num, body := (← stmtOf b), referenced := r }
  | _ => none

def progOf : Sx → Option Prog
  | .node "Prog" [.list p, .list l, .list s, .str name] => do
      pure { pfx := (← p.mapM lineOf), lines := (← l.mapM lineOf), sfx := (← s.mapM lineOf),
             procname := name }
  | _ => none

end Ast
end CocoVerif.Model
