/-
`Model.Visit` — the sequence of visitor callbacks that `x.visit(visitor)` produces for every
class of `elements.py` (after the two `visit` repairs), in order.  Every collecting pass of
`compiler.convert` is a fold over this sequence.
-/
import CocoVerif.Model.Ast

namespace CocoVerif.Model

inductive Ev
  | stmt (s : Stmt)                 -- visit_statement
  | exp (e : Expr)                  -- visit_exp
  | var (name : String) (isStr : Bool)
  | arrayRef (name : String)        -- visit_array_ref, with the `arr_` name
  | line (num : Option Int)
  | for_ (v : Expr)
  | next (nvars : Nat)
  | go (targets : List Int)
  | data (items : EList)
  | joystk
  | crash (kind : String)           -- `.visit` on something that has none (a leaked node)

namespace Visit

def arrName : Expr → String
  | .var n _ => n
  | _ => ""

def elistLen : EList → Nat
  | .mk _ es => es.length
  | .raw _ => 0

mutual
  def expr : Expr → List Ev
    | .lit l s => [.exp (.lit l s)]
    | .hex v f => [.exp (.hex v f)]
    | .var n s => [.var n s]
    | .arr v idx s => .arrayRef (arrName v) :: elist idx
    | .bin b l op r => .exp (.bin b l op r) :: (expr l ++ expr r)
    | .un b op e => .exp (.un b op e) :: expr e
    | .paren b e s => .exp (.paren b e s) :: expr e
    | .call f args s => .exp (.call f args s) :: elist args
    | .fexp j f args s v =>
        (match v with
         | some _ => .exp (.call f args false) :: (elist args ++ optExpr v ++ optExpr v)
         | none => elist args ++ [.exp (.fexp j f args s none)])
        ++ (if j then [.joystk] else [])
    | .varptr e => [.exp (.varptr e), .exp e]
    | .ctl _ => []
    | .stmtExp s => stmt s
    | .op _ => []
    | .raw _ => [.crash "AttributeError"]
  def exprs : List Expr → List Ev
    | [] => []
    | e :: es => expr e ++ exprs es
  def elist : EList → List Ev
    | .mk _ es => exprs es
    | .raw _ => [.crash "AttributeError"]
  def optExpr : Option Expr → List Ev
    | some e => expr e
    | none => []
  def stmt : Stmt → List Ev
    | .stmts _ ss _ => stmts ss
    | .assign l v e p => .stmt (.assign l v e p) :: (expr v ++ expr e)
    | .run k inv args p => .stmt (.run k inv args p) :: elist args
    | .goto n i g p => [.stmt (.goto n i g p), .go [n]]
    | .onErr n p => [.stmt (.onErr n p), .go [n]]
    | .onBrk n p => [.stmt (.onBrk n p), .go [n]]
    | .onGo e ns g p => .stmt (.onGo e ns g p) :: .go ns :: expr e
    | .if_ c b p => .stmt (.if_ c b p) :: (expr c ++ stmt b)
    | .ifElse c b elifs els p =>
        .stmt (.ifElse c b elifs els p) :: (expr c ++ stmt b ++ stmts elifs ++ optStmt els)
    | .comment c => [.stmt (.comment c)]
    | .print args p => .stmt (.print args p) :: exprs args
    | .sound a b p => .stmt (.sound a b p) :: (expr a ++ expr b)
    | .poke a b p => .stmt (.poke a b p) :: (expr a ++ expr b)
    | .cls e p => .stmt (.cls e p) :: optExpr e
    | .data items p => [.stmt (.data items p), .data items]
    | .kw k p => [.stmt (.kw k p)]
    | .for_ v a b st p => .stmt (.for_ v a b st p) :: .for_ v :: (expr v ++ expr a ++ expr b ++ optExpr st)
    | .next vars p => .stmt (.next vars p) :: .next (elistLen vars) :: elist vars
    | .dim vs i d sz p => [.stmt (.dim vs i d sz p)]
    | .read r p t => [.stmt (.read r p t)]
    | .input m r => [.stmt (.input m r)]
    | .width e p => .stmt (.width e p) :: expr e
    | .code c p => [.stmt (.code c p)]
    | .expStmt e => expr e
    | .rawStmt _ => [.crash "AttributeError"]
  def stmts : List Stmt → List Ev
    | [] => []
    | s :: ss => stmt s ++ stmts ss
  def optStmt : Option Stmt → List Ev
    | some s => stmt s
    | none => []
end

def line (l : Line) : List Ev := .line l.num :: stmt l.body

/-- `prog.visit(visitor)`: only `_lines`, never the prefix / suffix lines -/
def prog (p : Prog) : List Ev := p.lines.flatMap line

end Visit
end CocoVerif.Model
