/-
`Model.Cli` — `coco/decb_to_b09.py` + `compiler.convert_file`: how the command line maps its
flags to the options of `convert`, names the procedure after the input file, reads the input in
text mode (universal newlines) and writes OS-9 line ends.  argparse itself is not modelled: the
flag → namespace mapping is this table.
-/
import CocoVerif.Model.Compile

namespace CocoVerif.Model.Cli
open CocoVerif.Model.Compile

structure Flags where
  l : Bool := false        -- --filter-unused-linenum
  z : Bool := false        -- --dont-initialize-vars
  D : Bool := false        -- --dont-output-dependencies
  w : Bool := false        -- --dont-run-width-32
  s : Int := 32            -- --default-string-storage
  sizes : List (String × Int) := []   -- --config-file (already validated)

/-- `os.path.splitext(os.path.basename(name))[0]` on characters -/
def stemChars (path : List Char) : List Char :=
  let base := (path.reverse.takeWhile (· != '/')).reverse
  -- splitext: the extension starts at the last dot that is not a leading dot
  let lead := base.takeWhile (· == '.')
  let rest := base.drop lead.length
  match (rest.reverse.dropWhile (· != '.')) with
  | [] => base
  | _ :: r => lead ++ r.reverse

def stem (path : String) : String := String.ofList (stemChars path.toList)

def options (f : Flags) (inputPath : String) : Options :=
  { addStandardPrefix := true, addSuffix := true, skipProcedureHeaders := false,
    defaultWidth32 := !f.w,
    defaultStrStorage := f.s,
    filterUnusedLinenum := f.l,
    initializeVars := !f.z,
    outputDependencies := !f.D,
    procname := stem inputPath,
    strSizes := f.sizes }

/-- text-mode read: `\r\n` and `\r` become `\n` -/
def universalNewlines : List Char → List Char
  | '\r' :: '\n' :: r => '\n' :: universalNewlines r
  | '\r' :: r => '\n' :: universalNewlines r
  | c :: r => c :: universalNewlines r
  | [] => []

/-- `progout.replace("\n", "\r")` -/
def os9LineEnds (cs : List Char) : List Char := cs.map (fun c => if c == '\n' then '\r' else c)

end CocoVerif.Model.Cli
