/-
`Model.Peg` — the front end's parsing machine: the PEG semantics of parsimonious 0.10 (ordered
choice, sequences, quantifiers with its loop rule, lookahead, literals, regular-expression leaves
matched with Python `re.match` semantics, one node per expression, packrat memoisation of named
rules) over a grammar given as data.  The grammar itself is not written here: it is regenerated
from `coco/b09/grammar.py` (the live `Grammar` object and the `re` parse trees of its regexes) into
`Gen/Grammar.lean` on every run.

All functions are total: the parser recurses on an explicit fuel.  Input is an array of code points.
-/
import Std.Data.HashMap

namespace CocoVerif.Model.Peg

/-! ### regular expressions (the subset `re._parser` produces for the grammar's leaves) -/

inductive ClsItem
  | ch (c : Nat)
  | range (lo hi : Nat)
  | digit          -- `\d` (ASCII; the model assumes ASCII input)
  | word           -- `\w` (ASCII)
  | space          -- `\s` (ASCII)
  deriving Repr, DecidableEq, Inhabited

inductive Rx
  | lit (c : Nat)
  | any                               -- `.` without DOTALL: anything but LF
  | set (neg : Bool) (items : List ClsItem)
  | seq (rs : List Rx)
  | alt (rs : List Rx)
  | rep (lo : Nat) (hi : Option Nat) (r : Rx)      -- greedy
  | nlook (r : Rx)                    -- `(?!...)`
  | atEnd                             -- `$` without MULTILINE
  | plook (r : Rx)                    -- `(?=...)`
  | wordb (neg : Bool)                -- `\b` / `\B` (ASCII word characters)
  | atStart                           -- `^` without MULTILINE, `\A`
  | repLazy (lo : Nat) (hi : Option Nat) (r : Rx)  -- `*?` `+?` `??` `{m,n}?`
  deriving Repr, Inhabited

def ClsItem.matches (c : Nat) : ClsItem → Bool
  | .ch d => c == d
  | .range lo hi => lo ≤ c && c ≤ hi
  | .digit => 48 ≤ c && c ≤ 57
  | .word => (48 ≤ c && c ≤ 57) || (65 ≤ c && c ≤ 90) || (97 ≤ c && c ≤ 122) || c == 95
  | .space => c == 32 || (9 ≤ c && c ≤ 13) || (28 ≤ c && c ≤ 31)

/-- greedy repetition over a step function: every end position of `lo..hi` iterations starting at
`i`, most iterations first (the order in which a backtracking matcher would try them) -/
def repEnds (step : Nat → List Nat) : (fuel : Nat) → Nat → Option Nat → Nat → List Nat
  | 0, lo, _, i => if lo == 0 then [i] else []
  | fuel + 1, lo, hi, i =>
      let more := match hi with
        | some 0 => []
        | _ => (step i).flatMap (fun j =>
            if j == i then [] else repEnds step fuel (lo - 1) (hi.map (· - 1)) j)
      more ++ (if lo == 0 then [i] else [])

/-- lazy repetition: fewest iterations first -/
def repEndsLazy (step : Nat → List Nat) : (fuel : Nat) → Nat → Option Nat → Nat → List Nat
  | 0, lo, _, i => if lo == 0 then [i] else []
  | fuel + 1, lo, hi, i =>
      let more := match hi with
        | some 0 => []
        | _ => (step i).flatMap (fun j =>
            if j == i then [] else repEndsLazy step fuel (lo - 1) (hi.map (· - 1)) j)
      (if lo == 0 then [i] else []) ++ more

def isWordAt (inp : Array Nat) (i : Nat) : Bool :=
  match inp[i]? with
  | some c => ClsItem.word.matches c
  | none => false

mutual
  /-- all end positions of a match of `r` starting at `i`, in backtracking order; `re.match`
  takes the first -/
  def Rx.ends (inp : Array Nat) : Rx → Nat → List Nat
    | .lit c, i => if inp[i]? == some c then [i + 1] else []
    | .any, i => match inp[i]? with
        | some c => if c != 10 then [i + 1] else []
        | none => []
    | .set neg items, i => match inp[i]? with
        | some c => if items.any (·.matches c) != neg then [i + 1] else []
        | none => []
    | .seq rs, i => Rx.seqEnds inp rs i
    | .alt rs, i => Rx.altEnds inp rs i
    | .rep lo hi r, i => repEnds (fun j => Rx.ends inp r j) (inp.size + 1) lo hi i
    | .nlook r, i => if (Rx.ends inp r i).isEmpty then [i] else []
    | .atEnd, i => if i == inp.size || (i + 1 == inp.size && inp[i]? == some 10) then [i] else []
    | .plook r, i => if (Rx.ends inp r i).isEmpty then [] else [i]
    | .wordb neg, i =>
        let before := if i == 0 then false else isWordAt inp (i - 1)
        if ((before != isWordAt inp i) != neg) then [i] else []
    | .atStart, i => if i == 0 then [i] else []
    | .repLazy lo hi r, i => repEndsLazy (fun j => Rx.ends inp r j) (inp.size + 1) lo hi i
  def Rx.seqEnds (inp : Array Nat) : List Rx → Nat → List Nat
    | [], i => [i]
    | r :: rs, i => (Rx.ends inp r i).flatMap (fun j => Rx.seqEnds inp rs j)
  def Rx.altEnds (inp : Array Nat) : List Rx → Nat → List Nat
    | [], _ => []
    | r :: rs, i => Rx.ends inp r i ++ Rx.altEnds inp rs i
end

def Rx.matchAt (inp : Array Nat) (r : Rx) (i : Nat) : Option Nat := (r.ends inp i).head?

/-! ### parsing expressions -/

inductive PExpr
  | lit (s : List Nat)
  | regex (r : Rx)
  | seq (es : List PExpr)
  | alt (es : List PExpr)
  | quant (lo : Nat) (hi : Option Nat) (e : PExpr)
  | look (neg : Bool) (e : PExpr)
  | ref (rule : Nat)
  deriving Repr, Inhabited

structure Rule where
  name : String
  body : PExpr
  deriving Inhabited

/-- a node of the parse tree: the name of the expression that matched (empty for an anonymous
sub-expression), the span, the children -/
inductive PTree
  | node (name : String) (s e : Nat) (kids : List PTree)
  deriving Repr, Inhabited, BEq

def PTree.name : PTree → String | .node n _ _ _ => n
def PTree.s : PTree → Nat | .node _ s _ _ => s
def PTree.e : PTree → Nat | .node _ _ e _ => e
def PTree.kids : PTree → List PTree | .node _ _ _ k => k

abbrev Memo := Std.HashMap (Nat × Nat) (Option PTree)

def litMatches (inp : Array Nat) : List Nat → Nat → Bool
  | [], _ => true
  | c :: cs, i => inp[i]? == some c && litMatches inp cs (i + 1)

structure Ctx where
  rules : Array Rule
  inp : Array Nat

mutual
  /-- match expression `e` (whose node is to be called `nm`) at `i` -/
  def parseE (c : Ctx) : (fuel : Nat) → PExpr → String → Nat → Memo → Option PTree × Memo
    | 0, _, _, _, m => (none, m)
    | fuel + 1, e, nm, i, m =>
      match e with
      | .lit s => (if litMatches c.inp s i then some (.node nm i (i + s.length) []) else none, m)
      | .regex r => ((r.matchAt c.inp i).map (fun j => .node nm i j []), m)
      | .seq es => parseSeq c fuel nm i es i [] m
      | .alt es => parseAlt c fuel nm i es m
      | .quant lo hi e => parseQuant c fuel nm i lo hi e i [] 0 m
      | .look neg e =>
          let (r, m) := parseE c fuel e "" i m
          (if r.isSome != neg then some (.node nm i i []) else none, m)
      | .ref k =>
          match m[(k, i)]? with
          | some r => (r, m)
          | none =>
              let rule := c.rules[k]!
              let (r, m) := parseE c fuel rule.body rule.name i m
              (r, m.insert (k, i) r)
  def parseSeq (c : Ctx) : (fuel : Nat) → String → Nat → List PExpr → Nat → List PTree → Memo → Option PTree × Memo
    | 0, _, _, _, _, _, m => (none, m)
    | fuel + 1, nm, i, es, j, acc, m =>
      match es with
      | [] => (some (.node nm i j acc.reverse), m)
      | e :: es =>
          match parseE c fuel e "" j m with
          | (some t, m) => parseSeq c fuel nm i es t.e (t :: acc) m
          | (none, m) => (none, m)
  def parseAlt (c : Ctx) : (fuel : Nat) → String → Nat → List PExpr → Memo → Option PTree × Memo
    | 0, _, _, _, m => (none, m)
    | fuel + 1, nm, i, es, m =>
      match es with
      | [] => (none, m)
      | e :: es =>
          match parseE c fuel e "" i m with
          | (some t, m) => (some (.node nm i t.e [t]), m)
          | (none, m) => parseAlt c fuel nm i es m
  /-- parsimonious' quantifier loop: stop at the end of the text or at `hi` children; stop after an
  empty match once `lo` is reached -/
  def parseQuant (c : Ctx) : (fuel : Nat) → String → Nat → Nat → Option Nat → PExpr → Nat → List PTree → Nat → Memo
      → Option PTree × Memo
    | 0, _, _, _, _, _, _, _, _, m => (none, m)
    | fuel + 1, nm, i, lo, hi, e, j, acc, n, m =>
      let fin : Option PTree := if n ≥ lo then some (.node nm i j acc.reverse) else none
      let full := match hi with | some h => n ≥ h | none => false
      if j < c.inp.size && !full then
        match parseE c fuel e "" j m with
        | (none, m) => (fin, m)
        | (some t, m) =>
            if n + 1 ≥ lo && t.e == j then (some (.node nm i j (t :: acc).reverse), m)
            else parseQuant c fuel nm i lo hi e t.e (t :: acc) (n + 1) m
      else (fin, m)
end

inductive ParseResult
  | ok (t : PTree)
  | noMatch                    -- parsimonious: ParseError
  | incomplete (upTo : Nat)    -- parsimonious: IncompleteParseError
  | outOfFuel
  deriving Repr, Inhabited

/-- `Grammar.parse`: the default rule must match at 0 and consume everything -/
def parse (rules : Array Rule) (start : Nat) (text : List Nat) (fuel : Nat) : ParseResult :=
  let inp := text.toArray
  match (parseE ⟨rules, inp⟩ fuel (.ref start) "" 0 {}).1 with
  | some t => if t.e == inp.size then .ok t else .incomplete t.e
  | none => .noMatch

end CocoVerif.Model.Peg
