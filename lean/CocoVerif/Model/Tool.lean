/-
`Model.Tool` — the front half of the tool assembled: source text → parse tree (the PEG machine on
the grammar regenerated from grammar.py) → object graph (the visitor model with the tables
regenerated from grammar.py / parser.py).  `Compile.convertAst` continues from the object graph.
-/
import CocoVerif.Model.Peg
import CocoVerif.Model.Front
import CocoVerif.Gen.Grammar
import CocoVerif.Gen.FrontTables

namespace CocoVerif.Model.Tool
open CocoVerif.Model

def frontEnv (cps : List Nat) (floats : List (String × Option String)) : Front.Env :=
  { inp := cps.toArray
    floatRepr := fun t => match floats.find? (·.1 == t) with | some kv => kv.2 | none => none
    functions := CocoVerif.Gen.FrontTables.functions
    str2Functions := CocoVerif.Gen.FrontTables.str2Functions
    str3Functions := CocoVerif.Gen.FrontTables.str3Functions
    strNumFunctions := CocoVerif.Gen.FrontTables.strNumFunctions
    numStrFunctions := CocoVerif.Gen.FrontTables.numStrFunctions
    statements2 := CocoVerif.Gen.FrontTables.statements2
    statements3 := CocoVerif.Gen.FrontTables.statements3
    functionsToStatements := CocoVerif.Gen.FrontTables.functionsToStatements
    functionsToStatements2 := CocoVerif.Gen.FrontTables.functionsToStatements2
    numStrFunctionsToStatements := CocoVerif.Gen.FrontTables.numStrFunctionsToStatements
    strFunctionsToStatements := CocoVerif.Gen.FrontTables.strFunctionsToStatements
    singleKeywordStatements := CocoVerif.Gen.FrontTables.singleKeywordStatements
    visitMethods := CocoVerif.Gen.FrontTables.visitMethods }

/-- text -> parse tree -> object graph, printed like the dump of the real one -/
def frontProg (text : String) (floatTable : String) : Except String Prog :=
  let cps := text.toList.map Char.toNat
  let floats := (floatTable.splitOn "\n").filterMap (fun l => match l.splitOn "\t" with
    | [t, r] => some (t, if r == "!" then none else some r)
    | _ => none)
  match Peg.parse CocoVerif.Gen.Grammar.rules CocoVerif.Gen.Grammar.start cps (cps.length * 64 + 100000) with
  | .ok tree =>
      (match Front.visitTree (frontEnv cps floats) tree with
       | .ok (.prog p) => .ok p
       | .ok _ => .error "raise not-a-program"
       | .error k => .error ("raise " ++ k))
  | .noMatch => .error "nomatch"
  | .incomplete k => .error s!"incomplete {k}"
  | .outOfFuel => .error "fuel"


end CocoVerif.Model.Tool
