/-
`Model.Compile` — `compiler.convert` from the freshly built AST onwards: the passes in the
order the code runs them, the refusals, and `BasicProg.basic09_text`.
Python `set`s whose iteration reaches the output are sorted by the code before use; the sorting
is part of the model (`sortStrings`).
-/
import CocoVerif.Model.Passes

namespace CocoVerif.Model.Compile
open CocoVerif.Model CocoVerif.Model.Passes

structure Options where
  addStandardPrefix : Bool := true
  addSuffix : Bool := true
  defaultStrStorage : Int := 32
  defaultWidth32 : Bool := true
  filterUnusedLinenum : Bool := false
  initializeVars : Bool := false
  outputDependencies : Bool := false
  procname : String := ""
  skipProcedureHeaders : Bool := false
  /-- `compiler_configs.string_configs.strname_to_size` (already validated) -/
  strSizes : List (String × Int) := []

inductive Outcome
  | ok (text : String)
  | refused (kind : String)      -- ParseError / LineNumberTooLargeException
  | internal (kind : String)     -- any other exception
  deriving Repr, BEq, Inhabited

/-! ### small utilities -/

def insertSorted (x : String) : List String → List String
  | [] => [x]
  | y :: ys => if x < y then x :: y :: ys else if x == y then y :: ys else y :: insertSorted x ys

/-- `sorted(set(xs))` -/
def sortStrings (xs : List String) : List String := xs.foldl (fun acc x => insertSorted x acc) []

def codeLine (c : String) : Line := { num := none, body := .code c [] }

def standardPrefix (width32 : Bool) : List Line :=
  [ codeLine "base 0",
    codeLine ("type display_t = tpth, vpth, wpth, hpth, pal(16), blnk, undrln, bck, fore, brdr, hbck, hfore, "
      ++ "hscl, hpy, hagl, hdsc: byte; hpx: integer"),
    codeLine "dim display: display_t",
    codeLine "dim erno: real",
    codeLine "erno := -1",
    { num := none, body := .run "run" "RUN _ecb_start"
        (.mk true [.var "display" false, .lit (.int (if width32 then 1 else 0)) false]) [] },
    codeLine "TYPE play_t=oct,octo,lnt,tne,vol,dot:BYTE",
    codeLine "DIM play: play_t",
    codeLine "play.oct := 3", codeLine "play.octo := 0", codeLine "play.lnt := 4",
    codeLine "play.tne := 2", codeLine "play.vol := 15", codeLine "play.dot := 0" ]

/-- `PROCNAME_REGEX.fullmatch(procname)` with `[a-zA-Z0-9_]+` -/
def procnameOk (s : String) : Bool :=
  !s.isEmpty && s.toList.all (fun c => ('a' ≤ c && c ≤ 'z') || ('A' ≤ c && c ≤ 'Z') || ('0' ≤ c && c ≤ '9') || c == '_')

/-- the procedure name `convert` ends up using: none without bundle/headers, the given name when it
is a full match of `[a-zA-Z0-9_]+`, `program` otherwise -/
def effProcname (o : Options) : String :=
  if o.skipProcedureHeaders || !o.outputDependencies then ""
  else if procnameOk o.procname then o.procname else "program"

/-! ### collecting passes (folds over the visit events) -/

def dimEntryNames (vs : List Expr) : List String := vs.map Emit.dimName

def dimArrayNames (vs : List Expr) : List String :=
  vs.filterMap (fun v => match v with | .arr av _ _ => some (Visit.arrName av) | _ => none)

/-- names of every DIM entry reached by a visitor (`SetDimStringStorageVisitor.dimmed_var_names`) -/
def dimmedNames (evs : List Ev) : List String :=
  evs.flatMap (fun ev => match ev with | .stmt (.dim vs ..) => dimEntryNames vs | _ => [])

def dimmedArrays (evs : List Ev) : List String :=
  evs.flatMap (fun ev => match ev with | .stmt (.dim vs ..) => dimArrayNames vs | _ => [])

def arrayRefs (evs : List Ev) : List String :=
  evs.filterMap (fun ev => match ev with | .arrayRef n => some n | _ => none)

def varNames (evs : List Ev) : List String :=
  evs.filterMap (fun ev => match ev with | .var n _ => some n | _ => none)

def goOf : Ev → List Int
  | .go ns => ns
  | _ => []

def goTargets (evs : List Ev) : List Int := evs.flatMap goOf

def usesJoystk (evs : List Ev) : Bool := evs.any (fun ev => match ev with | .joystk => true | _ => false)

def hasHbuff (evs : List Ev) : Bool :=
  evs.any (fun ev => match ev with | .stmt (.run "hbuff" ..) => true | _ => false)

def firstCrash (evs : List Ev) : Option String :=
  evs.findSome? (fun ev => match ev with | .crash k => some k | _ => none)

def onErrLines (evs : List Ev) : List Int :=
  evs.filterMap (fun ev => match ev with | .stmt (.onErr n _) => some n | _ => none)

def onBrkLines (evs : List Ev) : List Int :=
  evs.filterMap (fun ev => match ev with | .stmt (.onBrk n _) => some n | _ => none)

def lineNums (evs : List Ev) : List (Option Int) :=
  evs.filterMap (fun ev => match ev with | .line n => some n | _ => none)

/-- `key if key.endswith("$") else f"arr_{key[:-3]}$"` -/
def configKey (k : String) : String :=
  if k.endsWith "$" then k else "arr_" ++ (k.dropEnd 3).toString ++ "$"

/-! ### rewriting passes that need the whole program -/

def setDimStorage (dflt : Int) (sizes : List (String × Int)) : Stmt → Stmt
  | .dim vs i _ _ p => .dim vs i dflt sizes p
  | s => s

def setDimInit (flag : Bool) : Stmt → Stmt
  | .dim vs _ d sz p => .dim vs flag d sz p
  | s => s

def implicitDim (init : Bool) (dflt : Int) (name : String) : Line :=
  let isS := name.endsWith "$"
  { num := none,
    body := .dim [.arr (.var name isS) (.mk true [.lit (.int 11) false]) isS] init dflt [] [] }

/- NEXT without variable takes the variable of the innermost open FOR (a stack over the whole
program in visit order) -/
mutual
  def nextPatch : Stmt → List Expr → Stmt × List Expr
    | .stmts m ss p, st => let (ss', st') := nextPatchList ss st; (.stmts m ss' p, st')
    | .if_ c b p, st => let (b', st') := nextPatch b st; (.if_ c b' p, st')
    | .ifElse c b elifs els p, st =>
        let (b', st1) := nextPatch b st
        let (el', st2) := nextPatchList elifs st1
        let (e', st3) := nextPatchOpt els st2
        (.ifElse c b' el' e' p, st3)
    | .for_ v a b stp p, st => (.for_ v a b stp p, v :: st)
    | .next vars p, st =>
        (match vars, st with
         | .mk par [], v :: st' => (.next (.mk par [v]) p, st')
         | .mk par [], [] => (.next (.mk par []) p, [])
         | .mk par es, st' => (.next (.mk par es) p, st'.drop es.length)   -- a named NEXT closes that many loops
         | vs, st' => (.next vs p, st'))
    | s, st => (s, st)
  def nextPatchList : List Stmt → List Expr → List Stmt × List Expr
    | [], st => ([], st)
    | s :: ss, st =>
        let (s', st1) := nextPatch s st
        let (ss', st2) := nextPatchList ss st1
        (s' :: ss', st2)
  def nextPatchOpt : Option Stmt → List Expr → Option Stmt × List Expr
    | some s, st => let (s', st') := nextPatch s st; (some s', st')
    | none, st => (none, st)
end

def nextPatchLines : List Line → List Expr → List Line
  | [], _ => []
  | l :: ls, st =>
      let (b', st') := nextPatch l.body st
      { l with body := b' } :: nextPatchLines ls st'

/-- `error_handler.generate` -/
def errorHandlerLines (brk err : Option Int) : List Line :=
  if brk.isNone && err.isNone then [] else
  [{ num := some 32700, body := (.stmts true [.assign false (.var "ERNO" false) (.var "errnum" false) []] []) }]
  ++ (match brk with
      | some b => [{ num := none, body := (.stmts true
          [.if_ (.bin false (.var "ERNO" false) "=" (.lit (.int 2) false)) (.goto b true false []) []] []) }]
      | none => [])
  ++ (match err with
      | some e => [{ num := none, body := (.stmts true [.goto e false false []] []) }]
      | none => [])

/-- `LineNumberFilterVisitor` (filter on) / `LineZeroFilterVisitor` (filter off) -/
def applyFilter (filter : Bool) (refs : List Int) (l : Line) : Line :=
  if filter then
    { l with referenced := match l.num with | some n => refs.contains n | none => false }
  else if l.num == some 0 then { l with referenced := refs.contains 0 } else l

def tooBig : Option Int → Bool
  | some k => k > 32699
  | none => false

/-- `LineNumberCheckerVisitor` and the two handler counts: the documented refusals -/
def lineCheck (nums : List (Option Int)) (refs : List Int) (errs brks : List Int) : Option String :=
  match nums.find? tooBig with
  | some _ => some "LineNumberTooLargeException"
  | none =>
    if refs.any (fun r => !nums.contains (some r)) then some "ParseError"
    else if errs.length > 1 then some "ParseError"
    else if brks.length > 1 then some "ParseError"
    else none

/-! ### `BasicProg.basic09_text` -/

def nestDelta (evs : List Ev) : Int :=
  evs.foldl (fun acc ev => match ev with
    | .for_ _ => acc + 1
    | .next n => acc - n
    | _ => acc) 0

def progLines : List Line → Int → List String
  | [], _ => []
  | l :: ls, count =>
      let c := count + nestDelta (Visit.line l)
      Emit.line c l :: progLines ls c

def progText (p : Prog) : String :=
  let hdr := if p.procname.isEmpty then [] else ["procedure " ++ p.procname]
  "\n".intercalate (hdr ++ progLines (p.pfx ++ p.lines ++ p.sfx) 0)

/-! ### the pipeline -/

def containsCrash (s : String) : Option String :=
  match s.splitOn Emit.crashMark with
  | _ :: k :: _ => some (String.ofList (k.toList.takeWhile Char.isAlpha))
  | _ => none

/-- `VarInitializerVisitor.assignment_lines`: only names that can be user variables (one or two characters, optionally `$`)
are cleared in the initialisation block - the guard that keeps the tool's own identifiers (pid, display, …) out of it -/
def isUserName (v : String) : Bool := (v.endsWith "$" && v.length ≤ 3) || v.length ≤ 2

/-- everything `convert` does after `BasicVisitor().visit(tree)`, up to (not including) the
procedure bank.  `perm` stands for the order in which a Python `set` hands out its members (it
depends on the hash seed): every set that reaches the output is passed through it. -/
def convertAstP (perm : List String → List String) (o : Options) (p0 : Prog) : Outcome × String :=
  let p := if o.addStandardPrefix then { p0 with lines := standardPrefix o.defaultWidth32 ++ p0.lines } else p0
  let procname := effProcname o
  let p := { p with procname := procname }
  -- the first traversal reaches every node a later one reaches: a leaked node fails here
  match firstCrash (Visit.prog p) with
  | some k => (.internal k, procname)
  | none =>
  let p := mapProg inputPatch p
  let evs := Visit.prog p
  let (p, hexCrash) := if hasEmptyData evs then (mapProg readPatchStmt p, dataHasHex evs) else (p, false)
  if hexCrash then (.internal "AttributeError", procname) else
  let joy := usesJoystk (Visit.prog p)
  let p := if joy then { p with pfx := p.pfx ++ [codeLine "dim joy0x, joy0y, joy1x, joy0y: integer"] } else p
  let p := mapProg printPatch p
  let p := { p with lines := p.lines.map (fun l => { l with body := pStmt l.body }) }
  let sizes := o.strSizes.map (fun kv => (configKey kv.1, kv.2))
  let p := mapProg (setDimStorage o.defaultStrStorage sizes) p
  let evs := Visit.prog p
  let dimmedAll := dimmedNames evs
  let implicit := sortStrings (perm ((arrayRefs evs).filter (fun n => !(dimmedArrays evs).contains n)))
  let p := { p with lines := implicit.map (implicitDim o.initializeVars o.defaultStrStorage) ++ p.lines }
  let evs := Visit.prog p
  let strVars := sortStrings (perm ((varNames evs).filter (fun n => n.endsWith "$" && !dimmedAll.contains n)))
  let p := if o.defaultStrStorage != 32 then
      { p with pfx := p.pfx ++ strVars.map (fun v =>
          codeLine ("DIM " ++ v ++ ":STRING[" ++ toString o.defaultStrStorage ++ "]")) }
    else p
  let p := if o.initializeVars then
      let evs := Visit.prog p
      let dimmed := dimmedNames evs
      let toAssign := sortStrings (perm ((varNames evs).filter (fun n => !dimmed.contains n)))
      if toAssign.isEmpty then p else
      let keep := toAssign.filter isUserName
      { p with pfx := p.pfx ++ [{ num := none, body := .stmts true (keep.map (fun v =>
          let isS := v.endsWith "$"
          Stmt.assign false (.var v isS) (.lit (if isS then .str "" else .flt "0.0") isS) [])) [] }] }
    else p
  let p := mapProg (setDimInit o.initializeVars) p
  let evs := Visit.prog p
  let refs := goTargets evs
  let p := { p with lines := p.lines.map (applyFilter o.filterUnusedLinenum refs) }
  let nums := lineNums (Visit.prog p)
  let errs := onErrLines evs
  let brks := onBrkLines evs
  match lineCheck nums refs errs brks with
  | some k => (.refused k, procname)
  | none =>
  let p := { p with lines := nextPatchLines p.lines [] }
  let p := if o.addSuffix then { p with sfx := p.sfx ++ errorHandlerLines brks.head? errs.head? } else p
  let p := if o.addStandardPrefix && hasHbuff (Visit.prog p) then
      { p with lines := [codeLine "dim pid: integer",
          { num := none, body := .run "run" "RUN _ecb_init_hbuff" (.mk true [.var "pid" false]) [] }] ++ p.lines }
    else p
  let text := progText p
  match containsCrash text with
  | some k => (.internal k, procname)
  | none => (.ok text, procname)

def convertAst (o : Options) (p : Prog) : Outcome × String := convertAstP id o p

end CocoVerif.Model.Compile
