/-
`Model.AstPrint` — the S-expression text of an object graph, in the format of harness/dump_ast.py
(which `Model.Ast` reads).  Used to compare the graph built by the model's front end with the dump
of the real one.
-/
import CocoVerif.Model.Ast

namespace CocoVerif.Model.AstPrint
open CocoVerif.Model

def hexNib (n : Nat) : Char := if n < 10 then Char.ofNat (48 + n) else Char.ofNat (87 + n)

def sStr (s : String) : String :=
  "s:" ++ String.ofList (s.toUTF8.toList.foldr (fun b acc => hexNib (b.toNat / 16) :: hexNib (b.toNat % 16) :: acc) [])

def sBool (b : Bool) : String := if b then "T" else "F"
def sInt (n : Int) : String := "i:" ++ toString n

def sList (xs : List String) : String :=
  if xs.isEmpty then "[ ]" else "[ " ++ " ".intercalate xs ++ " ]"

def sLit : Lit → String
  | .int n => "( LInt " ++ sInt n ++ " )"
  | .flt r => "( LFlt " ++ sStr r ++ " )"
  | .str s => "( LStr " ++ sStr s ++ " )"

mutual
  def expr : Expr → String
    | .lit l b => "( Lit " ++ sLit l ++ " " ++ sBool b ++ " )"
    | .hex v f => "( Hex " ++ sInt v ++ " " ++ sBool f ++ " )"
    | .var n b => "( Var " ++ sStr n ++ " " ++ sBool b ++ " )"
    | .arr v idx b => "( Arr " ++ expr v ++ " " ++ elist idx ++ " " ++ sBool b ++ " )"
    | .bin bb l op r => "( Bin " ++ sBool bb ++ " " ++ expr l ++ " " ++ sStr op ++ " " ++ expr r ++ " )"
    | .un bb op e => "( Un " ++ sBool bb ++ " " ++ sStr op ++ " " ++ expr e ++ " )"
    | .paren bb e b => "( Paren " ++ sBool bb ++ " " ++ expr e ++ " " ++ sBool b ++ " )"
    | .call f a b => "( Call " ++ sStr f ++ " " ++ elist a ++ " " ++ sBool b ++ " )"
    | .fexp j f a b v => "( FExp " ++ sBool j ++ " " ++ sStr f ++ " " ++ elist a ++ " " ++ sBool b ++ " " ++ optExpr v ++ " )"
    | .varptr e => "( Varptr " ++ expr e ++ " )"
    | .ctl c => "( Ctl " ++ sStr c ++ " )"
    | .stmtExp s => "( StmtExp " ++ stmt s ++ " )"
    | .op o => "( Op " ++ sStr o ++ " )"
    | .raw t => "( Raw " ++ sStr t ++ " )"
  def optExpr : Option Expr → String
    | some e => expr e
    | none => "N"
  def exprs : List Expr → List String
    | [] => []
    | e :: es => expr e :: exprs es
  def elist : EList → String
    | .mk p es => "( EL " ++ sBool p ++ " " ++ sList (exprs es) ++ " )"
    | .raw t => "( Raw " ++ sStr t ++ " )"
  def stmts : List Stmt → List String
    | [] => []
    | s :: ss => stmt s :: stmts ss
  def optStmt : Option Stmt → String
    | some s => stmt s
    | none => "N"
  def stmt : Stmt → String
    | .stmts m ss p => "( Stmts " ++ sBool m ++ " " ++ sList (stmts ss) ++ " " ++ sList (exprs p) ++ " )"
    | .assign l v e p => "( Assign " ++ sBool l ++ " " ++ expr v ++ " " ++ expr e ++ " " ++ sList (exprs p) ++ " )"
    | .run k inv a p => "( Run " ++ sStr k ++ " " ++ sStr inv ++ " " ++ elist a ++ " " ++ sList (exprs p) ++ " )"
    | .goto n i g p => "( Goto " ++ sInt n ++ " " ++ sBool i ++ " " ++ sBool g ++ " " ++ sList (exprs p) ++ " )"
    | .onErr n p => "( OnErr " ++ sInt n ++ " " ++ sList (exprs p) ++ " )"
    | .onBrk n p => "( OnBrk " ++ sInt n ++ " " ++ sList (exprs p) ++ " )"
    | .onGo e ns g p => "( OnGo " ++ expr e ++ " " ++ sList (ns.map sInt) ++ " " ++ sBool g ++ " " ++ sList (exprs p) ++ " )"
    | .if_ c b p => "( If " ++ expr c ++ " " ++ stmt b ++ " " ++ sList (exprs p) ++ " )"
    | .ifElse c b el e p => "( IfElse " ++ expr c ++ " " ++ stmt b ++ " " ++ sList (stmts el) ++ " " ++ optStmt e ++ " "
        ++ sList (exprs p) ++ " )"
    | .comment c => "( Comment " ++ sStr c ++ " )"
    | .print a p => "( Print " ++ sList (exprs a) ++ " " ++ sList (exprs p) ++ " )"
    | .sound a b p => "( Sound " ++ expr a ++ " " ++ expr b ++ " " ++ sList (exprs p) ++ " )"
    | .poke a b p => "( Poke " ++ expr a ++ " " ++ expr b ++ " " ++ sList (exprs p) ++ " )"
    | .cls e p => "( Cls " ++ optExpr e ++ " " ++ sList (exprs p) ++ " )"
    | .data items p => "( Data " ++ elist items ++ " " ++ sList (exprs p) ++ " )"
    | .kw k p => "( Kw " ++ sStr k ++ " " ++ sList (exprs p) ++ " )"
    | .for_ v a b s p => "( For " ++ expr v ++ " " ++ expr a ++ " " ++ expr b ++ " " ++ optExpr s ++ " " ++ sList (exprs p) ++ " )"
    | .next vs p => "( Next " ++ elist vs ++ " " ++ sList (exprs p) ++ " )"
    | .dim vs i d sz p => "( Dim " ++ sList (exprs vs) ++ " " ++ sBool i ++ " " ++ sInt d ++ " "
        ++ sList (sz.map (fun kv => "( KV " ++ sStr kv.1 ++ " " ++ sInt kv.2 ++ " )")) ++ " " ++ sList (exprs p) ++ " )"
    | .read r p _ => "( Read " ++ sList (exprs r) ++ " " ++ sList (exprs p) ++ " )"
    | .input m r => "( Input " ++ optExpr m ++ " " ++ sList (exprs r) ++ " )"
    | .width e p => "( Width " ++ expr e ++ " " ++ sList (exprs p) ++ " )"
    | .code c p => "( Code " ++ sStr c ++ " " ++ sList (exprs p) ++ " )"
    | .expStmt e => "( ExpStmt " ++ expr e ++ " )"
    | .rawStmt t => "( RawStmt " ++ sStr t ++ " )"
end

def line (l : Line) : String :=
  "( Line " ++ (match l.num with | some n => sInt n | none => "N") ++ " " ++ stmt l.body ++ " " ++ sBool l.referenced ++ " )"

def prog (p : Prog) : String :=
  "( Prog " ++ sList (p.pfx.map line) ++ " " ++ sList (p.lines.map line) ++ " " ++ sList (p.sfx.map line) ++ " "
    ++ sStr p.procname ++ " )"

end CocoVerif.Model.AstPrint
