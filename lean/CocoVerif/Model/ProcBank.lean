/-
`Model.ProcBank` — `coco/b09/procbank.py`: splitting a BASIC09 text into procedures, finding the
`RUN name` calls of each line (outside string literals: an even number of `"` to the end of the
line), the dependency closure, the alphabetical bundle and the `STRING<<>>` substitution.

The three regular expressions are modelled by hand (ASCII classes for `\s` and `\w`); the tie is
the ProcBank correspondence suite.
-/
namespace CocoVerif.Model.ProcBank

def isSpace (c : Char) : Bool := c == ' ' || ('\t' ≤ c && c ≤ '\r') || ('\x1c' ≤ c && c ≤ '\x1f')
def isWord (c : Char) : Bool := c.isAlphanum || c == '_'

def lower (cs : List Char) : List Char := cs.map Char.toLower

/-- `cs` starts with `kw`, ignoring case; returns the rest -/
def stripPrefixCI (kw : List Char) (cs : List Char) : Option (List Char) :=
  if lower (cs.take kw.length) == kw && kw.length ≤ cs.length then some (cs.drop kw.length) else none

def evenQuotes (cs : List Char) : Bool := (cs.filter (· == '"')).length % 2 == 0

/-- `re.split(r"[\r\n]", text)` -/
def splitLines (s : String) : List (List Char) :=
  let rec go : List Char → List Char → List (List Char)
    | [], cur => [cur.reverse]
    | c :: cs, cur => if c == '\n' || c == '\r' then cur.reverse :: go cs [] else go cs (c :: cur)
  go s.toList []

/-- `PROCEDURE_START_PREFIX.match(line)`: `(?i)procedure\s+(\w+)\s*$` -/
def headerName (line : List Char) : Option String :=
  match stripPrefixCI "procedure".toList line with
  | none => none
  | some rest =>
    let afterWs := rest.dropWhile isSpace
    if afterWs.length == rest.length then none else
    let name := afterWs.takeWhile isWord
    if name.isEmpty then none else
    let tail := (afterWs.drop name.length).dropWhile isSpace
    -- `$` also matches before a final newline, but a split line contains none
    if tail.isEmpty then some (String.ofList name) else none

/-- `INVOKED_PROCEDURE_NAMES.findall(line)`: `(?i)\s*RUN\s+(\w+)(?=[^"]*(?:"[^"]*"[^"]*)*$)` -/
def invoked (line : List Char) : List String :=
  let rec go : List Char → Nat → List String
    | _, 0 => []
    | [], _ => []
    | c :: cs, fuel + 1 =>
      match stripPrefixCI "run".toList (c :: cs) with
      | some rest =>
        let afterWs := rest.dropWhile isSpace
        let name := afterWs.takeWhile isWord
        if afterWs.length < rest.length && !name.isEmpty && evenQuotes (afterWs.drop name.length) then
          String.ofList name :: go (afterWs.drop name.length) fuel
        else go cs fuel
      | none => go cs fuel
  go line (line.length + 1)

structure Bank where
  /-- name → text, in insertion order (a later definition of the same name replaces the text) -/
  procs : List (String × String) := []
  /-- name → RUN targets, accumulated -/
  deps : List (String × List String) := []

def assocSet {α} (k : String) (v : α) : List (String × α) → List (String × α)
  | [] => [(k, v)]
  | (k', v') :: r => if k' == k then (k, v) :: r else (k', v') :: assocSet k v r

def assocGet {α} (k : String) (d : α) (l : List (String × α)) : α :=
  match l.find? (fun p => p.1 == k) with
  | some p => p.2
  | none => d

/-- Python `str.strip()` -/
def strip (cs : List Char) : List Char :=
  ((cs.dropWhile isSpace).reverse.dropWhile isSpace).reverse

/-- `add_from_str`.  `none`: a line before the first header (UnboundLocalError in Python). -/
def addFromStr (b : Bank) (text : String) : Option Bank :=
  let lines := splitLines text
  -- state: current name, lines of the current procedure (reversed), finished procedures, deps
  let step := fun (st : Option (Option String × List (List Char) × List (String × List (List Char)) × List (String × List String)))
      (line : List Char) =>
    match st with
    | none => none
    | some (cur, acc, done, deps) =>
      let (cur, acc, done) := match headerName line with
        | some n =>
            let done := match cur with | some c => assocSet c acc.reverse done | none => done
            (some n, [], done)
        | none => (cur, acc, done)
      let acc := line :: acc
      match cur with
      | none => none
      | some n =>
          let old := assocGet n [] deps
          some (some n, acc, done, assocSet n (old ++ invoked line) deps)
  match lines.foldl step (some (none, [], [], b.deps)) with
  | none => none
  | some (cur, acc, done, deps) =>
    let done := match cur with | some c => assocSet c acc.reverse done | none => done
    let procs := done.foldl (fun ps (p : String × List (List Char)) =>
        assocSet p.1 (String.ofList (strip (List.intercalate ['\n'] p.2))) ps) b.procs
    some { procs := procs, deps := deps }

/-- `_add_procedure_dependencies`: depth-first closure with an explicit work list.  `fuel` bounds the
number of steps; `none` = fuel exhausted (never for the fuel `bundle` supplies, see `Props.C13`). -/
def closure (deps : String → List String) : Nat → List String → List String → Option (List String)
  | _, [], seen => some seen
  | 0, _ :: _, _ => none
  | fuel + 1, n :: todo, seen =>
      if seen.contains n then closure deps fuel todo seen
      else closure deps fuel (deps n ++ todo) (seen ++ [n])

def insertSorted (x : String) : List String → List String
  | [] => [x]
  | y :: ys => if x < y then x :: y :: ys else if x == y then y :: ys else y :: insertSorted x ys

def sortStrings (xs : List String) : List String := xs.foldl (fun acc x => insertSorted x acc) []

/-- `re.sub(STR_STORAGE_TAG, repl, text)` with
`(?im)\:\s*STRING\<\<\>\>(?=[^"\n]*(?:"[^"\n]*"[^"\n]*)*$)` -/
def substTags (repl : List Char) (text : List Char) : List Char :=
  let restOfLine (cs : List Char) : List Char := cs.takeWhile (· != '\n')
  let rec go : List Char → Nat → List Char
    | cs, 0 => cs
    | [], _ => []
    | c :: cs, fuel + 1 =>
      if c == ':' then
        let afterWs := cs.dropWhile isSpace
        match stripPrefixCI "string<<>>".toList afterWs with
        | some rest =>
            if evenQuotes (restOfLine rest) then repl ++ go rest fuel else c :: go cs fuel
        | none => c :: go cs fuel
      else c :: go cs fuel
  go text (text.length + 1)

def closureFuel (b : Bank) : Nat :=
  (b.deps.map (fun d => d.2.length)).foldl (· + ·) 0 + b.deps.length + 4

/-- `get_procedure_and_dependencies`; `none` only if the closure ran out of fuel -/
def bundle (b : Bank) (name : String) (storage : Int) : Option String :=
  match closure (fun n => assocGet n [] b.deps) (closureFuel b) [name] [] with
  | none => none
  | some all =>
    let others := sortStrings (all.filter (· != name))
    let texts := (others ++ [name]).filterMap (fun n =>
      match b.procs.find? (fun p => p.1 == n) with | some p => some p.2 | none => none)
    let raw := "\n".intercalate texts
    let repl := ": STRING" ++ (if storage == 32 then "" else "[" ++ toString storage ++ "]")
    some (String.ofList (substTags repl.toList raw.toList))

/-- the tail of `convert`: bundle the program with the library when dependencies are wanted -/
def finish (lib : String) (program : String) (procname : String) (outputDeps : Bool) (storage : Int) :
    Option String :=
  if outputDeps && !procname.isEmpty then
    match addFromStr {} lib with
    | none => none
    | some b =>
      match addFromStr b program with
      | none => none
      | some b' => (bundle b' procname storage).map (· ++ "\n")
  else some (program ++ "\n")

end CocoVerif.Model.ProcBank
