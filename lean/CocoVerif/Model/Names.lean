/-
`Model.Names` — how a source variable name becomes a BASIC09 identifier
(`visit_var`: first two characters; `visit_str_var`: first two characters of the part before `$`,
then `$`; `BasicArrayRef`: the prefix `arr_`).  Hand model of three visitor lines, tied by the
names correspondence suite.
-/
namespace CocoVerif.Model.Names

inductive Kind | scalar | strScalar | array | strArray
  deriving DecidableEq, Repr

def fmt (t : List Char) : Kind → List Char
  | .scalar => t
  | .strScalar => t ++ ['$']
  | .array => "arr_".toList ++ t
  | .strArray => "arr_".toList ++ t ++ ['$']

/-- `name` is the source spelling without the `$`: significant are its first two characters -/
def xl (name : List Char) (k : Kind) : List Char := fmt (name.take 2) k

/-- identifiers the tool generates itself -/
def generated : List (List Char) :=
  ["display", "play", "pid", "erno", "errnum", "ERNO", "joy0x", "joy0y", "joy1x", "joy1y", "display.hfore",
   "play.octo"].map String.toList

def isTemp (id : List Char) : Bool := id.take 4 == "tmp_".toList

/-- what the `var` / `str_var` regular expressions accept (keyword exclusion aside):
a letter followed by letters and digits -/
def wfName (n : List Char) : Bool :=
  match n with
  | [] => false
  | c :: r => c.isUpper && r.all (fun d => d.isUpper || d.isDigit)

end CocoVerif.Model.Names
