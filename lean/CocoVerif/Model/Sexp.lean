/-
Reader for the S-expression dump of the real object graph (harness/dump_ast.py).
Tokens are separated by single blanks: `(` `)` `[` `]` `T` `F` `N` `i:<int>` `s:<hex>` Tag.
-/
namespace CocoVerif.Model

inductive Sx
  | node (tag : String) (kids : List Sx)
  | list (xs : List Sx)
  | str (s : String)
  | int (n : Int)
  | bool (b : Bool)
  | nil
  deriving Repr, Inhabited

namespace Sx

def hexVal (c : Char) : Nat :=
  if '0' ≤ c && c ≤ '9' then c.toNat - 48
  else if 'a' ≤ c && c ≤ 'f' then c.toNat - 87
  else 0

def unhexBytes : List Char → List UInt8
  | a :: b :: r => (UInt8.ofNat (hexVal a * 16 + hexVal b)) :: unhexBytes r
  | _ => []

def unhexStr (h : String) : String :=
  match String.fromUTF8? (ByteArray.mk (unhexBytes h.toList).toArray) with
  | some s => s
  | Option.none => ""

inductive Frame | nodeF (tag : String) | listF

/-- a closing bracket or an atom: the value it produces and the stack it leaves -/
def reduceTok (t : String) (stack : List (Frame × List Sx)) : Option (Sx × List (Frame × List Sx)) :=
  if t == ")" || t == "]" then
    match stack with
    | (Frame.nodeF tag, acc) :: st => some (Sx.node tag acc.reverse, st)
    | (Frame.listF, acc) :: st => some (Sx.list acc.reverse, st)
    | [] => Option.none
  else if t == "T" then some (Sx.bool true, stack)
  else if t == "F" then some (Sx.bool false, stack)
  else if t == "N" then some (Sx.nil, stack)
  else if t.startsWith "i:" then
    match (t.drop 2).toString.toInt? with
    | some n => some (Sx.int n, stack)
    | Option.none => Option.none
  else if t.startsWith "s:" then some (Sx.str (unhexStr (t.drop 2).toString), stack)
  else Option.none

/-- iterative parser with an explicit stack (the input can be large) -/
def parseToks : List String → List (Frame × List Sx) → Option Sx
  | [], _ => Option.none
  | t :: rest, stack =>
    if t == "(" then
      match rest with
      | tag :: rest' => parseToks rest' ((Frame.nodeF tag, []) :: stack)
      | [] => Option.none
    else if t == "[" then parseToks rest ((Frame.listF, []) :: stack)
    else
      match reduceTok t stack with
      | Option.none => Option.none
      | some (v, []) => if rest.isEmpty then some v else Option.none
      | some (v, (f, acc) :: st) => parseToks rest ((f, v :: acc) :: st)

def parse (s : String) : Option Sx :=
  parseToks ((s.splitOn " ").filter (fun t => !t.isEmpty)) []

end Sx
end CocoVerif.Model
