/-
`Model.Passes` — the visitor passes of `compiler.convert`, in the order the code runs them.
Collecting passes are folds over `Visit.prog`; rewriting passes are structural maps that follow
the same traversal order (`BasicStatements.visit` replaces PRINT / READ / INPUT members, the
function patcher threads "the most recently visited statement").
-/
import CocoVerif.Model.Visit
import CocoVerif.Model.Emit

namespace CocoVerif.Model.Passes
open CocoVerif.Model

/-! ### generic maps over the statements a visitor reaches -/

mutual
  /-- apply `f` to every statement reached by `visit` (bottom-up: children first) -/
  def mapStmt (f : Stmt → Stmt) : Stmt → Stmt
    | .stmts m ss p => f (.stmts m (mapStmts f ss) p)
    | .if_ c b p => f (.if_ c (mapStmt f b) p)
    | .ifElse c b elifs els p => f (.ifElse c (mapStmt f b) (mapStmts f elifs) (mapOptStmt f els) p)
    | s => f s
  def mapStmts (f : Stmt → Stmt) : List Stmt → List Stmt
    | [] => []
    | s :: ss => mapStmt f s :: mapStmts f ss
  def mapOptStmt (f : Stmt → Stmt) : Option Stmt → Option Stmt
    | some s => some (mapStmt f s)
    | none => none
end

def mapProg (f : Stmt → Stmt) (p : Prog) : Prog :=
  { p with lines := p.lines.map (fun l => { l with body := mapStmt f l.body }) }

/-! ### INPUT patcher -/

def inputPatch : Stmt → Stmt
  | .stmts m ss p => .stmts m (ss.map (fun s => match s with
      | .input msg rhs => .stmts false
          [.run "run" "RUN _ecb_input_prefix" (.mk true []) [], .input msg rhs,
           .run "run" "RUN _ecb_input_suffix" (.mk true []) []] []
      | s => s)) p
  | s => s

/-! ### empty DATA items / READ patcher -/

def litIsEmptyStr : Expr → Bool
  | .lit (.str s) _ => s.isEmpty
  | _ => false

def hasEmptyData (evs : List Ev) : Bool :=
  evs.any (fun ev => match ev with
    | .data (.mk _ es) => es.any litIsEmptyStr
    | _ => false)

/-- `exp.literal = str(exp.literal)` for every non-string item; a hex item has no setter -/
def dataItemToStr : Expr → Expr × Bool
  | .lit (.flt r) _ => (.lit (.str r) true, false)
  | .lit (.int n) _ => (.lit (.str (toString n)) true, false)
  | .hex v f => (.hex v f, true)
  | e => (e, false)

def readPatchStmt : Stmt → Stmt
  | .data (.mk par es) p => .data (.mk par (es.map (fun e => (dataItemToStr e).1))) p
  | .stmts m ss p => .stmts m (ss.map (fun s => match s with
      | .read rhs rp _ =>
          -- one string temporary per non-string target, in order
          let step := fun (acc : List Expr × List Stmt × Nat) (r : Expr) =>
            if Emit.isStrFlag r then (acc.1 ++ [r], acc.2.1, acc.2.2)
            else
              let t := Expr.var ("tmp_" ++ toString (acc.2.2 + 1) ++ "$") true
              (acc.1 ++ [t], acc.2.1 ++ [.run "run" "RUN ecb_read_filter" (.mk true [t, r]) []], acc.2.2 + 1)
          let (rhs', filters, n) := rhs.foldl step ([], [], 0)
          .stmts false (.read rhs' rp n :: filters) []
      | s => s)) p
  | s => s

def dataHasHex (evs : List Ev) : Bool :=
  evs.any (fun ev => match ev with
    | .data (.mk _ es) => es.any (fun e => (dataItemToStr e).2)
    | _ => false)

/-! ### PRINT patcher -/

def isAbstractExpression : Expr → Bool
  | .lit .. | .hex .. | .var .. | .arr .. | .bin .. | .paren .. | .call .. | .fexp .. | .varptr .. => true
  | _ => false

def printPatch : Stmt → Stmt
  | .stmts m ss p => .stmts m (ss.map (fun s => match s with
      | .print args _ => .print (args.map (fun a =>
          if !isAbstractExpression a || Emit.isStrFlag a then a
          else .fexp false "run ecb_str" (.mk true [a]) true none)) []
      | s => s)) p
  | s => s

/-! ### functions to procedure calls -/

structure Reg where
  nNum : Nat := 0
  nStr : Nat := 0
  pre : List Expr := []
  crash : Option String := none

def Reg.alloc (r : Reg) (isStr : Bool) : Expr × Reg :=
  if isStr then (.var ("tmp_" ++ toString (r.nStr + 1) ++ "$") true, { r with nStr := r.nStr + 1 })
  else (.var ("tmp_" ++ toString (r.nNum + 1)) false, { r with nNum := r.nNum + 1 })

def stmtPre : Stmt → List Expr
  | .stmts _ _ p | .assign _ _ _ p | .run _ _ _ p | .goto _ _ _ p | .onErr _ p | .onBrk _ p
  | .onGo _ _ _ p | .if_ _ _ p | .ifElse _ _ _ _ p | .print _ p | .sound _ _ p | .poke _ _ p
  | .cls _ p | .data _ p | .kw _ p | .for_ _ _ _ _ p | .next _ p | .dim _ _ _ _ p | .read _ p _
  | .width _ p | .code _ p => p
  | _ => []

def setPre : Stmt → List Expr → Stmt
  | .run k inv a _, p => .run k inv a p
  | .assign l v e _, p => .assign l v e p
  | .code c _, p => .code c p
  | s, _ => s
def markCrash (s : Stmt) (r : Reg) : Stmt :=
  match r.crash with
  | some k => .stmts false [s, .rawStmt k] []
  | none => s

mutual
  /-- `e.visit(patcher)` with register `r` -/
  def pExpr : Expr → Reg → Expr × Reg
    | .arr v idx s, r => let (idx', r') := pEList idx r; (.arr v idx' s, r')
    | .bin b l op rr, r =>
        let (l', r1) := pExpr l r
        let (rr', r2) := pExpr rr r1
        (.bin b l' op rr', r2)
    | .un b op e, r => let (e', r') := pExpr e r; (.un b op e', r')
    | .paren b e s, r => let (e', r') := pExpr e r; (.paren b e' s, r')
    | .call f args s, r => let (a', r') := pEList args r; (.call f a' s, r')
    | .fexp j f args s v, r =>
        let (a', r1) := pEList args r
        if v.isSome then
          let (v'', r2) := pOptExpr v r1
          (.fexp j f a' s v'', r2)
        else
          let (t, r2) := r1.alloc s
          let callArgs : EList := match a' with
            | .mk _ es => .mk true (es ++ [t])
            | x => x
          (.fexp j f a' s (some t), { r2 with pre := r2.pre ++ [.call f callArgs false] })
    | .stmtExp st, r => (.stmtExp (pStmt st), r)
    | .raw t, r => (.raw t, { r with crash := some "AttributeError" })
    | e, r => (e, r)
  /-- a list of expressions; a statement object in expression position becomes the register for
  everything that follows it -/
  def pExprs : List Expr → Reg → List Expr × Reg
    | [], r => ([], r)
    | .stmtExp st :: rest, r =>
        let st' := pStmt st
        let (rest', ri) := pExprs rest { pre := stmtPre st' }
        (.stmtExp (setPre st' ri.pre) :: rest', { r with crash := r.crash.or ri.crash })
    | e :: rest, r =>
        let (e', r1) := pExpr e r
        let (rest', r2) := pExprs rest r1
        (e' :: rest', r2)
  def pEList : EList → Reg → EList × Reg
    | .mk p es, r => let (es', r') := pExprs es r; (.mk p es', r')
    | .raw t, r => (.raw t, { r with crash := some "AttributeError" })
  def pOptExpr : Option Expr → Reg → Option Expr × Reg
    | some e, r => let (e', r') := pExpr e r; (some e', r')
    | none, r => (none, r)
  /-- `s.visit(patcher)`: the statement becomes the register, its expressions are visited in the
  order of its `visit` method, hoisted calls land in its `pre` -/
  def pStmt : Stmt → Stmt
    | .stmts m ss p => .stmts m (pStmts ss) p
    | .assign l v e p =>
        let (v', r1) := pExpr v { pre := p }
        if Emit.isFexp e then
          match e with
          | .fexp j f args s _ =>
              -- visit_statement: a functional right-hand side takes the target as its result variable;
              -- that variable is the same object as the (now patched) target, visiting it again allocates nothing
              let (a', r2) := pEList args r1
              markCrash (.assign l v' (.fexp j f a' s (some v')) r2.pre) r2
          | x => .assign l v' x r1.pre
        else
          let (e', r2) := pExpr e r1
          markCrash (.assign l v' e' r2.pre) r2
    | .run k inv args p => let (a', r) := pEList args { pre := p }; markCrash (.run k inv a' r.pre) r
    | .onGo e ns g p => let (e', r) := pExpr e { pre := p }; markCrash (.onGo e' ns g r.pre) r
    | .if_ c b p =>
        let (c', r) := pExpr c { pre := p }
        markCrash (.if_ c' (pStmt b) r.pre) r
    | .ifElse c b elifs els p =>
        let (c', r) := pExpr c { pre := p }
        markCrash (.ifElse c' (pStmt b) (pStmts elifs) (pOptStmt els) r.pre) r
    | .print args p => let (a', r) := pExprs args { pre := p }; markCrash (.print a' r.pre) r
    | .sound a b p =>
        let (a', r1) := pExpr a { pre := p }
        let (b', r2) := pExpr b r1
        markCrash (.sound a' b' r2.pre) r2
    | .poke a b p =>
        let (a', r1) := pExpr a { pre := p }
        let (b', r2) := pExpr b r1
        markCrash (.poke a' b' r2.pre) r2
    | .cls e p => let (e', r) := pOptExpr e { pre := p }; markCrash (.cls e' r.pre) r
    | .for_ v a b st p =>
        let (v', r0) := pExpr v { pre := p }
        let (a', r1) := pExpr a r0
        let (b', r2) := pExpr b r1
        let (st', r3) := pOptExpr st r2
        markCrash (.for_ v' a' b' st' r3.pre) r3
    | .next vars p => let (v', r) := pEList vars { pre := p }; markCrash (.next v' r.pre) r
    | .width e p => let (e', r) := pExpr e { pre := p }; markCrash (.width e' r.pre) r
    | .expStmt e => let (e', _) := pExpr e {}; .expStmt e'
    | s => s
  def pStmts : List Stmt → List Stmt
    | [] => []
    | s :: ss => pStmt s :: pStmts ss
  def pOptStmt : Option Stmt → Option Stmt
    | some s => some (pStmt s)
    | none => none
end

end CocoVerif.Model.Passes
