/-
`Model.Emit` — `basic09_text(indent_level)` of every class of `elements.py`, quirks included
(`ENDIF` is not indented, `ADDR(` and an embedded `float(...)` call carry the statement's
indentation, the two `IF … ELSE` forms ignore their hoisted calls, …).

A Python exception during emission is the marker `crashMark ++ kind` inside the text; the
top level (`Model.Compile`) turns it into an `internal` outcome.
-/
import CocoVerif.Model.Ast

namespace CocoVerif.Model.Emit
open CocoVerif.Model

def crashMark : String := "\uE000CRASH:"

/-- `"  " * indent_level` (empty for negative levels) -/
def ind (i : Int) : String := "".pushn ' ' (2 * i.toNat)

def join (sep : String) (xs : List String) : String := sep.intercalate xs

def hexDigitU (n : Nat) : Char := if n < 10 then Char.ofNat (48 + n) else Char.ofNat (55 + n)

/-- `hex(n)[2:].upper()` -/
def hexUpper (n : Nat) : String :=
  String.ofList (Nat.toDigits 16 n |>.map (fun c => c.toUpper))

def litText : Lit → String
  | .flt r => r
  | .int n => toString n
  | .str s => "\"" ++ s ++ "\""

def hexText (v : Nat) (isFloat : Bool) : String :=
  if isFloat then (if v < 0x8000 then "float($" ++ hexUpper v ++ ")" else toString v ++ ".0")
  else (if v < 0x8000 then "$" ++ hexUpper v else toString v)

def isCtl : Expr → Bool | .ctl _ => true | _ => false
def isFexp : Expr → Bool | .fexp .. => true | _ => false
def isStmts : Stmt → Bool | .stmts .. => true | _ => false
def isImplicitGoto : Stmt → Bool | .goto _ true _ _ => true | _ => false

def varName : Expr → String
  | .var n _ => n
  | _ => ""

/-- `name()` of a DIM entry: the variable itself or the `arr_` variable of an array reference -/
def dimName : Expr → String
  | .var n _ => n
  | .arr v _ _ => varName v
  | _ => ""

def isStrFlag : Expr → Bool
  | .lit _ b => b | .hex .. => false | .var _ b => b | .arr _ _ b => b | .bin .. => true
  | .un .. => false | .paren _ _ b => b | .call _ _ b => b | .fexp _ _ _ b _ => b | .varptr _ => false
  | _ => false

/-- PRINT argument list: `""` before a leading / doubled separator, `; ` between juxtaposed
items, a blank after a separator that is not last -/
def printArgs (texts : List (Bool × String)) : String :=
  let rec go : List (Bool × String) → Option Bool → List String
    | [], _ => []
    | (isC, t) :: rest, prev =>
      let a := if isC && (prev.isNone || prev == some true) then ["\"\""] else []
      let b := if !isC && prev == some false then ["; "] else []
      let c := if !rest.isEmpty && isC then [" "] else []
      a ++ b ++ [t] ++ c ++ go rest (some isC)
  String.join (go texts none)

/-- `init_text_for_var` -/
def dimInit (v : Expr) : String :=
  match v with
  | .var n isS => n ++ " := " ++ (if isS then "\"\"" else "0")
  | .arr av idx isS =>
      let bounds : List Expr := match idx with | .mk _ es => es | .raw _ => []
      let n := bounds.length
      let fors := (List.range n).map (fun k =>
        "FOR tmp_" ++ toString (k + 1) ++ " = 0 TO " ++ (match bounds.getD k (.raw "") with
          | .lit (.int m) _ => toString (m - 1)
          | .lit (.flt r) _ => r
          | .hex h _ => hexText (h - 1) false
          | _ => crashMark ++ "AttributeError"))
      let nexts := (List.range n).map (fun k => "NEXT tmp_" ++ toString (n - k))
      let idxText := join ", " ((List.range n).map (fun k => "tmp_" ++ toString (k + 1)))
      let asg := "arr_" ++ ((varName av).drop 4).toString
      let asg := asg ++ (if idxText.isEmpty then "" else "(" ++ idxText ++ ")") ++ " := "
          ++ (if isS then "\"\"" else "0")
      join " \\ " (fors ++ [asg] ++ nexts)
  | _ => crashMark ++ "AttributeError"

structure DimItem where
  name : String
  text : String
  init : String

def dimItems : List Expr → List String → List DimItem
  | v :: vs, t :: ts => { name := dimName v, text := t, init := dimInit v } :: dimItems vs ts
  | _, _ => []

/-- `BasicDimStatement.basic09_text`, given the texts of its entries -/
def dimText (pretxt : String) (items : List DimItem) (init : Bool) (dflt : Int)
    (sizes : List (String × Int)) : String :=
  let isStrVar (v : DimItem) : Bool := v.name.endsWith "$"
  let strVars := items.filter isStrVar
  let nonStr := items.filter (fun v => !isStrVar v)
  -- dict name -> var: first position, last value
  let byName : List DimItem := strVars.foldl (fun acc v =>
      if acc.any (fun p => p.name == v.name) then acc.map (fun p => if p.name == v.name then v else p)
      else acc ++ [v]) []
  let sized : List (DimItem × Int) := byName.map (fun p =>
      (p, match sizes.find? (fun kv => kv.1 == p.name) with | some kv => kv.2 | none => dflt))
  -- group by size in order of first appearance
  let groups : List (Int × List DimItem) := sized.foldl (fun acc p =>
      if acc.any (fun g => g.1 == p.2) then acc.map (fun g => if g.1 == p.2 then (g.1, g.2 ++ [p.1]) else g)
      else acc ++ [(p.2, [p.1])]) []
  let one (vs : List DimItem) (suffix : String) : String :=
    let initText := if init then
        let t := join "\n" (vs.map (·.init))
        if t.isEmpty then "" else "\n" ++ t
      else ""
    pretxt ++ "DIM " ++ join ", " (vs.map (·.text)) ++ suffix ++ initText
  let strTexts := groups.map (fun g => one g.2 (if g.1 == 32 then "" else ": STRING[" ++ toString g.1 ++ "]"))
  let strText := if strTexts.isEmpty then "" else join "\n" strTexts ++ (if nonStr.isEmpty then "" else "\n")
  let nonStrText := if nonStr.isEmpty then "" else one nonStr ""
  strText ++ nonStrText

/-- indentation + hoisted calls + ` \ ` -/
def pretextOf (i : Int) (pre : List String) : String :=
  ind i ++ join " \\ " pre ++ (if pre.isEmpty then "" else " \\ ")

mutual
  def expr (i : Int) : Expr → String
    | .lit l _ => litText l
    | .hex v f => hexText v f
    | .var n _ => n
    | .arr v idx _ => expr i v ++ elist i idx
    | .bin boolean l op r =>
        if !boolean && (op == "AND" || op == "OR") then "L" ++ op ++ "(" ++ expr i l ++ ", " ++ expr i r ++ ")"
        else expr i l ++ " " ++ op ++ " " ++ expr i r
    | .un boolean op e =>
        if op == "NOT" then (if boolean then "NOT(" else "LNOT(") ++ expr i e ++ ")"
        else op ++ " " ++ expr i e
    | .paren _ e _ => "(" ++ expr i e ++ ")"
    | .call f args _ => f ++ elist i args
    | .fexp _ _ _ _ v => optExpr i v
    | .varptr e => ind i ++ "ADDR(" ++ expr i e ++ ")"
    | .ctl c => c
    | .stmtExp s => stmt i true s
    | .op o => o
    | .raw _ => crashMark ++ "leak"
  /-- for a functional expression: the text of its call statement `func(args…, var)`; Python has
  no statement object (AttributeError) while the result variable is not set -/
  def fexpCall (i : Int) : Expr → Option String
    | .fexp _ f args _ fv =>
        if fv.isNone then some (crashMark ++ "AttributeError") else
        let t := join ", " (elistTexts i args ++ [optExpr i fv])
        some (f ++ (if t.isEmpty then "" else "(" ++ t ++ ")"))
    | _ => none
  def elistTexts (i : Int) : EList → List String
    | .mk _ es => exprs i es
    | .raw _ => [crashMark ++ "leak"]
  def exprs (i : Int) : List Expr → List String
    | [] => []
    | e :: es => expr i e :: exprs i es
  def elist (i : Int) : EList → String
    | .mk parens es =>
        let t := join ", " (exprs i es)
        if parens then (if t.isEmpty then "" else "(" ++ t ++ ")") else t
    | .raw _ => crashMark ++ "leak"
  def optExpr (i : Int) : Option Expr → String
    | some e => expr i e
    | none => ""
  def stmt (i : Int) (preIndent : Bool) : Stmt → String
    | .stmts multi ss _ =>
        let pfx := match ss with
          | s :: _ => if preIndent && isStmts s then ind i else ""
          | [] => ""
        pfx ++ join (if multi then "\n" else " \\ ") (stmtsIn i (if multi then i else 0) ss)
    | .assign l v e pre =>
        match fexpCall i e with
        | some t => pretextOf i (exprs 0 pre) ++ t
        | none => pretextOf i (exprs 0 pre) ++ (if l then "LET " else "") ++ expr i v ++ " := " ++ expr i e
    | .run _ inv args pre => pretextOf i (exprs 0 pre) ++ inv ++ elist i args
    | .goto n implicit gosub pre =>
        if gosub then pretextOf i (exprs 0 pre) ++ "GOSUB " ++ toString n
        else if implicit then toString n
        else pretextOf i (exprs 0 pre) ++ "GOTO " ++ toString n
    | .onErr _ _ => "ON ERROR GOTO 32700"
    | .onBrk _ _ => "ON ERROR GOTO 32700"
    | .onGo e ns gosub pre =>
        pretextOf i (exprs 0 pre) ++ "ON " ++ expr i e ++ (if gosub then " GOSUB " else " GOTO ")
          ++ join ", " (ns.map toString)
    | .if_ c body pre =>
        if isImplicitGoto body then pretextOf i (exprs 0 pre) ++ "IF " ++ expr i c ++ " THEN " ++ stmt 0 true body
        else pretextOf i (exprs 0 pre) ++ "IF " ++ expr i c ++ " THEN\n" ++ stmt (i + 1) true body ++ "\nENDIF"
    | .ifElse c body elifs els _ =>
        if !elifs.isEmpty then
          let first := ind (i + 1) ++ "EXITIF " ++ expr 0 c ++ " THEN\n" ++ stmt (i + 2) true body ++ "\n"
              ++ ind (i + 1) ++ "ENDEXIT"
          let exits := join "\n" (first :: elifTexts i elifs)
          let elseSfx := match els with
            | none => ""
            | some e => ind (i + 1) ++ "EXITIF TRUE THEN\n" ++ stmt (i + 2) true e ++ "\n" ++ ind (i + 1) ++ "ENDEXIT\n"
          ind i ++ "LOOP\n" ++ exits ++ "\n" ++ elseSfx ++ ind i ++ "ENDLOOP"
        else
          let elseSfx := match els with
            | none => ""
            | some e => ind i ++ "ELSE\n" ++ stmt (i + 1) true e ++ "\n"
          ind i ++ "IF " ++ expr 0 c ++ " THEN\n" ++ stmt (i + 1) true body ++ "\n" ++ elseSfx ++ ind i ++ "ENDIF"
    | .comment c => "(*" ++ c ++ " *)"
    | .print args pre => pretextOf i (exprs 0 pre) ++ "PRINT " ++ printArgs (printTexts i args)
    | .sound a b pre =>
        pretextOf i (exprs 0 pre) ++ "RUN ecb_sound(" ++ expr i a ++ ", " ++ expr i b ++ ", 31.0, FIX(play.octo))"
    | .poke a b pre =>
        let loc : Option String := match a with
          | .lit (.flt r) _ => some r
          | .lit (.int n) _ => some (toString n ++ ".0")
          | .hex v _ => some (toString v ++ ".0")
          | _ => none
        if loc == some "65496.0" then pretextOf i (exprs 0 pre) ++ "play.octo := 0"
        else if loc == some "65497.0" then pretextOf i (exprs 0 pre) ++ "play.octo := 1"
        else pretextOf i (exprs 0 pre) ++ "POKE " ++ expr i a ++ ", " ++ expr i b
    | .cls e pre =>
        pretextOf i (exprs 0 pre) ++ (match e with
          | some e => "RUN ecb_cls(" ++ expr i e ++ ", display)"
          | none => "RUN ecb_cls(1.0, display)")
    | .data items pre => pretextOf i (exprs 0 pre) ++ "DATA " ++ elist i items
    | .kw k pre => pretextOf i (exprs 0 pre) ++ k
    | .for_ v a b step pre =>
        pretextOf (i - 1) (exprs 0 pre) ++ "FOR " ++ expr i v ++ " = " ++ expr i a ++ " TO " ++ expr i b
          ++ (match step with | some s => " STEP " ++ expr i s | none => "")
    | .next vars pre =>
        let vs := elistTexts i vars
        pretextOf i (exprs 0 pre) ++ (if vs.isEmpty then "NEXT" else join " \\ " (vs.map (fun v => "NEXT " ++ v)))
    | .dim vars init dflt sizes pre =>
        dimText (pretextOf i (exprs 0 pre)) (dimItems vars (exprs i vars)) init dflt sizes
    | .read rhs _ _ => ind i ++ "READ " ++ join ", " (exprs i rhs)
    | .input msg rhs =>
        (match msg with
         | some m => ind i ++ "INPUT " ++ expr i m ++ ", "
         | none => "INPUT ") ++ join ", " (exprs i rhs)
    | .width e pre => pretextOf i (exprs 0 pre) ++ "run _ecb_width(" ++ expr i e ++ ", display)"
    | .code c pre => pretextOf i (exprs 0 pre) ++ c
    | .expStmt e => expr i e
    | .rawStmt _ => crashMark ++ "leak"
  /-- the members of a `BasicStatements`: nested statement lists keep the level and drop the
  pre-indent, everything else gets `net` -/
  def stmtsIn (i net : Int) : List Stmt → List String
    | [] => []
    | s :: ss => (if isStmts s then stmt i false s else stmt net true s) :: stmtsIn i net ss
  def elifTexts (i : Int) : List Stmt → List String
    | [] => []
    | s :: ss =>
        (match s with
         | .if_ c body _ => ind (i + 1) ++ "EXITIF " ++ expr 0 c ++ " THEN\n" ++ stmt (i + 2) true body ++ "\n"
              ++ ind (i + 1) ++ "ENDEXIT"
         | .ifElse c body _ _ _ => ind (i + 1) ++ "EXITIF " ++ expr 0 c ++ " THEN\n" ++ stmt (i + 2) true body ++ "\n"
              ++ ind (i + 1) ++ "ENDEXIT"
         | _ => crashMark ++ "AttributeError") :: elifTexts i ss
  def printTexts (i : Int) : List Expr → List (Bool × String)
    | [] => []
    | e :: es => (isCtl e, expr i e) :: printTexts i es
end

def line (i : Int) (l : Line) : String :=
  match l.num with
  | some n => if l.referenced then toString n ++ " " ++ stmt i true l.body else stmt i true l.body
  | none => stmt i true l.body

end CocoVerif.Model.Emit
