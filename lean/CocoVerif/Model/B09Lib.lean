/-
`Model.B09Lib` — the statement subset of BASIC09 that the three string helpers of `ecb.b09`
(`ecb_instr`, `ecb_string`, `ecb_read_filter`) are written in: abstract syntax (variables resolved
to positions: parameters first, then `dim`s), an executable continuation-style interpreter with
fuel, and the same semantics as an inductive relation (`Exec`) for the theorems.

No BASIC09 exists offline, so this semantics is part of the trusted base (DESIGN.md §3):
numbers are integers (the procedures are only specified on integer-valued reals), strings are
unbounded lists of characters, `MID$(s, a, n)` is `(s.drop (a-1)).take n` and an error for
`a < 1` or `n < 0`, `VAL` is a parameter.
-/
namespace CocoVerif.Model.B09Lib

inductive E
  | num (n : Int)
  | str (s : List Char)
  | var (i : Nat)
  | len (e : E)
  | mid (s : E) (a : E) (n : E)
  | fix (e : E)
  | val (e : E)
  | add (a : E) (b : E)
  | sub (a : E) (b : E)
  | eq (a : E) (b : E)
  | ne (a : E) (b : E)
  | lt (a : E) (b : E)
  | le (a : E) (b : E)
  | gt (a : E) (b : E)
  | ge (a : E) (b : E)
  | and_ (a : E) (b : E)
  | or_ (a : E) (b : E)
  | tt
  | ff
  | not_ (e : E)
  | mul (a : E) (b : E)
  deriving Repr, DecidableEq, Inhabited

inductive S
  | assign (i : Nat) (e : E)
  | ite (c : E) (t : List S) (e : List S)
  | while_ (c : E) (body : List S)
  | for_ (i : Nat) (a : E) (b : E) (body : List S)
  | forGo (i : Nat) (lim : Int) (body : List S)     -- internal: the loop test after the limits were evaluated
  | incr (i : Nat)                                   -- internal: `NEXT`
  | error (n : Nat)
  deriving Repr, Inhabited

structure Proc where
  name : String
  kinds : List String          -- kind of every variable: parameters first, then dims
  nparams : Nat
  body : List S
  deriving Repr, Inhabited

inductive V
  | n (i : Int)
  | s (cs : List Char)
  | b (t : Bool)
  deriving Repr, DecidableEq, Inhabited

abbrev Env := List V

/-- value or error code (`none` = ill-typed / unbound: the program is outside the subset) -/
inductive EvalRes
  | val (v : V)
  | err (code : Nat)
  | stuck
  deriving Repr, DecidableEq

def cmp (f : Int → Int → Bool) (g : List Char → List Char → Bool) : EvalRes → EvalRes → EvalRes
  | .val (.n a), .val (.n b) => .val (.b (f a b))
  | .val (.s a), .val (.s b) => .val (.b (g a b))
  | .err c, _ => .err c
  | _, .err c => .err c
  | _, _ => .stuck

def evalE (valFn : List Char → Int) (env : Env) : E → EvalRes
  | .num n => .val (.n n)
  | .str s => .val (.s s)
  | .var i => match env[i]? with | some v => .val v | none => .stuck
  | .len e => match evalE valFn env e with
      | .val (.s cs) => .val (.n cs.length) | .err c => .err c | _ => .stuck
  | .mid s a n => match evalE valFn env s, evalE valFn env a, evalE valFn env n with
      | .val (.s cs), .val (.n a'), .val (.n n') =>
          if a' < 1 ∨ n' < 0 then .err 67 else .val (.s ((cs.drop (a' - 1).toNat).take n'.toNat))
      | .err c, _, _ => .err c
      | _, .err c, _ => .err c
      | _, _, .err c => .err c
      | _, _, _ => .stuck
  | .fix e => match evalE valFn env e with
      | .val (.n x) => .val (.n x) | .err c => .err c | _ => .stuck
  | .val e => match evalE valFn env e with
      | .val (.s cs) => .val (.n (valFn cs)) | .err c => .err c | _ => .stuck
  | .add a b => match evalE valFn env a, evalE valFn env b with
      | .val (.n x), .val (.n y) => .val (.n (x + y))
      | .val (.s x), .val (.s y) => .val (.s (x ++ y))
      | .err c, _ => .err c
      | _, .err c => .err c
      | _, _ => .stuck
  | .sub a b => match evalE valFn env a, evalE valFn env b with
      | .val (.n x), .val (.n y) => .val (.n (x - y))
      | .err c, _ => .err c
      | _, .err c => .err c
      | _, _ => .stuck
  | .eq a b => cmp (· == ·) (· == ·) (evalE valFn env a) (evalE valFn env b)
  | .ne a b => cmp (· != ·) (· != ·) (evalE valFn env a) (evalE valFn env b)
  | .lt a b => cmp (· < ·) (fun x y => decide (x < y)) (evalE valFn env a) (evalE valFn env b)
  | .le a b => cmp (· ≤ ·) (fun x y => decide (x ≤ y)) (evalE valFn env a) (evalE valFn env b)
  | .gt a b => cmp (· > ·) (fun x y => decide (x > y)) (evalE valFn env a) (evalE valFn env b)
  | .ge a b => cmp (· ≥ ·) (fun x y => decide (x ≥ y)) (evalE valFn env a) (evalE valFn env b)
  | .and_ a b => match evalE valFn env a, evalE valFn env b with
      | .val (.b x), .val (.b y) => .val (.b (x && y))
      | .err c, _ => .err c
      | _, .err c => .err c
      | _, _ => .stuck
  | .or_ a b => match evalE valFn env a, evalE valFn env b with
      | .val (.b x), .val (.b y) => .val (.b (x || y))
      | .err c, _ => .err c
      | _, .err c => .err c
      | _, _ => .stuck
  | .tt => .val (.b true)
  | .ff => .val (.b false)
  | .not_ e => match evalE valFn env e with
      | .val (.b x) => .val (.b (!x)) | .err c => .err c | _ => .stuck
  | .mul a b => match evalE valFn env a, evalE valFn env b with
      | .val (.n x), .val (.n y) => .val (.n (x * y))
      | .err c, _ => .err c
      | _, .err c => .err c
      | _, _ => .stuck

inductive Res
  | ok (env : Env)
  | err (code : Nat)
  | stuck
  deriving Repr, DecidableEq

/-- continuation-style interpreter: the statement list is "what remains to be done";
`none` = out of fuel -/
def exec (valFn : List Char → Int) : Nat → List S → Env → Option Res
  | _, [], env => some (.ok env)
  | 0, _ :: _, _ => none
  | fuel + 1, st :: rest, env =>
    match st with
    | .assign i e =>
        (match evalE valFn env e with
         | .val v => exec valFn fuel rest (env.set i v)
         | .err c => some (.err c)
         | .stuck => some .stuck)
    | .ite c t e =>
        (match evalE valFn env c with
         | .val (.b true) => exec valFn fuel (t ++ rest) env
         | .val (.b false) => exec valFn fuel (e ++ rest) env
         | .err c => some (.err c)
         | _ => some .stuck)
    | .while_ c body =>
        (match evalE valFn env c with
         | .val (.b true) => exec valFn fuel (body ++ .while_ c body :: rest) env
         | .val (.b false) => exec valFn fuel rest env
         | .err c => some (.err c)
         | _ => some .stuck)
    | .for_ i a b body =>
        (match evalE valFn env a, evalE valFn env b with
         | .val (.n x), .val (.n y) => exec valFn fuel (.forGo i y body :: rest) (env.set i (.n x))
         | .err c, _ => some (.err c)
         | _, .err c => some (.err c)
         | _, _ => some .stuck)
    | .forGo i lim body =>
        (match env[i]? with
         | some (.n x) =>
             if x ≤ lim then exec valFn fuel (body ++ .incr i :: .forGo i lim body :: rest) env
             else exec valFn fuel rest env
         | _ => some .stuck)
    | .incr i =>
        (match env[i]? with
         | some (.n x) => exec valFn fuel rest (env.set i (.n (x + 1)))
         | _ => some .stuck)
    | .error n => some (.err n)

/-- the same semantics as a relation (one rule per interpreter step) -/
inductive Exec (valFn : List Char → Int) : List S → Env → Res → Prop
  | nil (env : Env) : Exec valFn [] env (.ok env)
  | assign {i e rest env v r} : evalE valFn env e = .val v → Exec valFn rest (env.set i v) r →
      Exec valFn (.assign i e :: rest) env r
  | assignErr {i e rest env c} : evalE valFn env e = .err c → Exec valFn (.assign i e :: rest) env (.err c)
  | iteT {c t e rest env r} : evalE valFn env c = .val (.b true) → Exec valFn (t ++ rest) env r →
      Exec valFn (.ite c t e :: rest) env r
  | iteF {c t e rest env r} : evalE valFn env c = .val (.b false) → Exec valFn (e ++ rest) env r →
      Exec valFn (.ite c t e :: rest) env r
  | whileT {c body rest env r} : evalE valFn env c = .val (.b true) →
      Exec valFn (body ++ .while_ c body :: rest) env r → Exec valFn (.while_ c body :: rest) env r
  | whileF {c body rest env r} : evalE valFn env c = .val (.b false) → Exec valFn rest env r →
      Exec valFn (.while_ c body :: rest) env r
  | for_ {i a b body rest env x y r} : evalE valFn env a = .val (.n x) → evalE valFn env b = .val (.n y) →
      Exec valFn (.forGo i y body :: rest) (env.set i (.n x)) r → Exec valFn (.for_ i a b body :: rest) env r
  | forGoT {i lim body rest env x r} : env[i]? = some (.n x) → x ≤ lim →
      Exec valFn (body ++ .incr i :: .forGo i lim body :: rest) env r → Exec valFn (.forGo i lim body :: rest) env r
  | forGoF {i lim body rest env x r} : env[i]? = some (.n x) → ¬ x ≤ lim → Exec valFn rest env r →
      Exec valFn (.forGo i lim body :: rest) env r
  | incr {i rest env x r} : env[i]? = some (.n x) → Exec valFn rest (env.set i (.n (x + 1))) r →
      Exec valFn (.incr i :: rest) env r
  | error {n rest env} : Exec valFn (.error n :: rest) env (.err n)

/-- adequacy of the relation for the interpreter: a derivation is a terminating run -/
theorem Exec.run {valFn : List Char → Int} {p : List S} {env : Env} {r : Res}
    (h : Exec valFn p env r) : ∃ fuel, exec valFn fuel p env = some r := by
  induction h with
  | nil env => exact ⟨0, by simp [exec]⟩
  | assign he _ ih => obtain ⟨f, hf⟩ := ih; exact ⟨f + 1, by simp [exec, he, hf]⟩
  | assignErr he => exact ⟨1, by simp [exec, he]⟩
  | iteT hc _ ih => obtain ⟨f, hf⟩ := ih; exact ⟨f + 1, by simp [exec, hc, hf]⟩
  | iteF hc _ ih => obtain ⟨f, hf⟩ := ih; exact ⟨f + 1, by simp [exec, hc, hf]⟩
  | whileT hc _ ih => obtain ⟨f, hf⟩ := ih; exact ⟨f + 1, by simp [exec, hc, hf]⟩
  | whileF hc _ ih => obtain ⟨f, hf⟩ := ih; exact ⟨f + 1, by simp [exec, hc, hf]⟩
  | for_ ha hb _ ih => obtain ⟨f, hf⟩ := ih; exact ⟨f + 1, by simp [exec, ha, hb, hf]⟩
  | forGoT hi hle _ ih => obtain ⟨f, hf⟩ := ih; exact ⟨f + 1, by simp [exec, hi, hle, hf]⟩
  | forGoF hi hle _ ih => obtain ⟨f, hf⟩ := ih; exact ⟨f + 1, by simp [exec, hi, hle, hf]⟩
  | incr hi _ ih => obtain ⟨f, hf⟩ := ih; exact ⟨f + 1, by simp [exec, hi, hf]⟩
  | error => exact ⟨1, by simp [exec]⟩

end CocoVerif.Model.B09Lib
