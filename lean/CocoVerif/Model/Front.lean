/-
`Model.Front` — the visitor of `coco/b09/parser.py` (`BasicVisitor`): parse tree → object graph.

parsimonious' `NodeVisitor.visit` walks the tree bottom-up: the children of a node are visited
first (left to right), then `visit_<rule name>` — or `generic_visit` when the visitor has no such
method — receives the node and the list of its children's results.  The visitor is dynamically
typed; `Val` is the universe of values it passes around.  One case per method, children taken by
position exactly as the method unpacks them; the constructors of `elements.py` that do work
(`BasicDimStatement` adding 1 to every bound, `BasicArrayRef` prefixing `arr_`, the circle / ellipse /
arc / line statements assembling their argument lists, `from_exp_op_and_fragments`) are part of
the model.

Two things come from outside and are parameters (`Env`): the tables of `grammar.py` that map BASIC
function names to BASIC09 names (regenerated into `Gen/FrontTables.lean`), and Python's `float()`
with `repr()` for numeric literals (`floatRepr`; supplied per request by the harness).

An exception raised in a visitor method ends the visit: `Except String` carries its class name.
-/
import CocoVerif.Model.Peg
import CocoVerif.Model.Ast
import CocoVerif.Model.Emit

namespace CocoVerif.Model.Front
open CocoVerif.Model CocoVerif.Model.Peg

structure Env where
  inp : Array Nat
  /-- text of a numeric literal (blanks removed) ↦ `repr(float(text))`, `none` for ValueError -/
  floatRepr : String → Option String
  functions : List (String × String)
  str2Functions : List (String × String)
  str3Functions : List (String × String)
  strNumFunctions : List (String × String)
  numStrFunctions : List (String × String)
  statements2 : List (String × String)
  statements3 : List (String × String)
  functionsToStatements : List (String × String)
  functionsToStatements2 : List (String × String)
  numStrFunctionsToStatements : List (String × String)
  strFunctionsToStatements : List (String × String)
  singleKeywordStatements : List (String × String)
  /-- the rule names for which the visitor class defines a `visit_` method -/
  visitMethods : List String

inductive Val
  | str (s : String)
  | int (n : Int)
  | none
  | node (text : String)                  -- a parsimonious Node that a method handed on
  | e (x : Expr)                          -- a construct that lives in `Expr` (see `isExpression`)
  | stmt (s : Stmt)
  | list (vs : List Val)
  | frag (op : Val) (exp : Val)           -- BasicBinaryExpFragment
  | elist (parens : Bool) (vs : List Val) -- BasicExpressionList
  | line (l : Line)
  | prog (p : Prog)
  | pargs (args : List Val)               -- BasicPrintArgs
  | coords (x y : Val)
  | coords3 (x y z : Val)
  | suffix (dest mode ltype : Val)        -- LineSuffix
  | circle (x y r : Val) (color : Option Val)
  | ellipse (x y r : Val) (color : Option Val) (ratio : Val)
  deriving Inhabited

def textOf (inp : Array Nat) (s e : Nat) : String :=
  String.ofList ((inp.extract s e).toList.map Char.ofNat)

/-- `str.strip() == ""` (ASCII white space) -/
def isBlank (s : String) : Bool :=
  s.toList.all (fun c => c == ' ' || c == '\n' || c == '\r' || c == '\t' || c.toNat == 11 || c.toNat == 12
    || (28 ≤ c.toNat && c.toNat ≤ 31))

def pyStrip (s : String) : String :=
  let ws (c : Char) : Bool := c == ' ' || c == '\n' || c == '\r' || c == '\t' || c.toNat == 11 || c.toNat == 12
    || (28 ≤ c.toNat && c.toNat ≤ 31)
  String.ofList ((s.toList.dropWhile ws).reverse.dropWhile ws).reverse

def operators : List String :=
  ["^", "*", "/", "+", "-", "&", "<", ">", "<>", "=", "<=", "=<", ">=", "=>", "AND", "OR", "NOT"]

/-- `isinstance(v, AbstractBasicExpression)` -/
def isExpression : Val → Bool
  | .e (.lit ..) | .e (.hex ..) | .e (.var ..) | .e (.arr ..) | .e (.bin ..) | .e (.paren ..) | .e (.call ..)
  | .e (.fexp ..) | .e (.varptr ..) => true
  | _ => false

/-- `isinstance(v, AbstractBasicConstruct)` -/
def isConstruct : Val → Bool
  | .e _ | .stmt _ | .elist .. | .line _ | .pargs _ | .circle .. | .ellipse .. => true
  | _ => false

def isOperator : Val → Bool | .e (.op _) => true | _ => false
def isOpExp : Val → Bool | .e (.un ..) => true | _ => false

/-- Python truthiness -/
def truthy : Val → Bool
  | .str s => !s.isEmpty
  | .int n => n != 0
  | .none => false
  | .list vs => !vs.isEmpty
  | _ => true

def unmodelled : String := "unmodelled"

def circleArgs (x y r : Expr) (color : Option Expr) (ratio : Expr) : EList :=
  .mk true [x, y, r,
    (match color with
     | some c => c
     | none => .stmtExp (.run "run" "float" (.mk true [.var "display.hfore" false]) [])),
    ratio, .var "display" false]

mutual
  def toExpr : Val → Expr
    | .e x => x
    | .stmt s => .stmtExp s
    | .node t => .raw t
    | .circle x y r c => .stmtExp (.run "run" "run ecb_hcircle"
        (circleArgs (toExpr x) (toExpr y) (toExpr r) (optToExpr c) (.lit (.flt "1.0") false)) [])
    | .ellipse x y r c ratio => .stmtExp (.run "run" "run ecb_hcircle"
        (circleArgs (toExpr x) (toExpr y) (toExpr r) (optToExpr c) (toExpr ratio)) [])
    | _ => .raw unmodelled
  def optToExpr : Option Val → Option Expr
    | some v => some (toExpr v)
    | Option.none => Option.none
end

def toExprs (vs : List Val) : List Expr := vs.map toExpr

def toEList : Val → EList
  | .elist p vs => .mk p (toExprs vs)
  | .node t => .raw t
  | _ => .raw unmodelled

def toStmt : Val → Stmt
  | .stmt s => s
  | .e (.op _) => .rawStmt unmodelled
  | .e x => .expStmt x
  | .node t => .rawStmt t
  | v@(.circle ..) | v@(.ellipse ..) => (match toExpr v with | .stmtExp s => s | _ => .rawStmt unmodelled)
  | _ => .rawStmt unmodelled

def lookup (tbl : List (String × String)) (k : String) : Except String String :=
  match tbl.find? (·.1 == k) with
  | some kv => pure kv.2
  | Option.none => throw "KeyError"

/-- `.text` of a value: only parse nodes have it -/
def nodeText : Val → Except String String
  | .node t => pure t
  | _ => throw "AttributeError"

def kid (vs : List Val) (i : Nat) : Val := vs.getD i .none

def varOf (name : String) (isStr : Bool) : Val := .e (.var name isStr)
def display : Val := varOf "display" false

/-- `var.name()` -/
def nameOf : Val → Except String String
  | .e (.var n _) => pure n
  | _ => throw "AttributeError"

def strFlagOf : Val → Except String Bool
  | .e x => pure (Emit.isStrFlag x)
  | _ => throw "AttributeError"

/-- `BasicArrayRef(var, indices, is_str_expr)` -/
def arrayRef (var indices : Val) (isStr : Bool) : Except String Val := do
  let n ← nameOf var
  pure (.e (.arr (.var ("arr_" ++ n) isStr) (toEList indices) isStr))

def runCall (inv : String) (args : List Val) : Val :=
  .stmt (.run "run" inv (.mk true (toExprs args)) [])

def litFlt (r : String) : Val := .e (.lit (.flt r) false)
def litInt (n : Int) : Val := .e (.lit (.int n) false)
def litStr (s : String) (isStr : Bool) : Val := .e (.lit (.str s) isStr)

def hexDigitVal (c : Char) : Option Nat :=
  if '0' ≤ c && c ≤ '9' then some (c.toNat - 48)
  else if 'A' ≤ c && c ≤ 'F' then some (c.toNat - 55)
  else if 'a' ≤ c && c ≤ 'f' then some (c.toNat - 87)
  else Option.none

/-- `int("0x" + s, 16)` -/
def parseHex (s : String) : Except String Nat :=
  if s.isEmpty then throw "ValueError" else
  s.toList.foldlM (fun acc c => match hexDigitVal c with
    | some d => pure (acc * 16 + d)
    | Option.none => throw "ValueError") 0

/-- the text after the first `H`, blanks removed (`node.text[node.text.find("H") + 1:].replace(" ", "")`;
`find` gives -1 when there is no H: then the whole text) -/
def afterH (t : String) : String :=
  let cs := t.toList
  let rest := if cs.contains 'H' then (cs.dropWhile (· != 'H')).drop 1 else cs
  String.ofList (rest.filter (· != ' '))

def noBlanks (t : String) : String := String.ofList (t.toList.filter (· != ' '))

def fragPart : Val → Except String (String × Val)
  | .frag (.e (.op o)) e => pure (o, e)
  | _ => throw "AttributeError"

/-- one step of the loop: the earlier fragment's operator, and the earlier operand combined with
what has been built so far -/
def nestStep (cur : String × Val) (prior : String × Val) : String × Val :=
  (prior.1, Val.e (.bin false (toExpr prior.2) cur.1 (toExpr cur.2)))

/-- `BasicBinaryExp.from_exp_op_and_fragments(exp, op, fragments)`; `op` is not used.  The loop
runs from the last fragment to the first, so the object it builds is nested to the right -/
def fromFragments (exp : Val) (frags : List Val) : Except String Val := do
  let parts ← frags.mapM fragPart
  match parts.reverse with
  | [] => throw "BinaryExpressionException"
  | last :: before =>
      let cur := before.foldl nestStep last
      pure (.e (.bin false (toExpr exp) cur.1 (toExpr cur.2)))

/-- `visit_binary_exp` -/
def binaryExp (vs : List Val) : Except String Val := do
  let v1 := kid vs 0; let v2 := kid vs 1; let v3 := kid vs 2
  let v2str := match v2 with | .str _ => true | _ => false
  let v3strOrEmpty := match v3 with | .str _ => true | .list [] => true | _ => false
  if v2str && v3strOrEmpty then pure v1 else
  match v3 with
  | .list fr => fromFragments v1 fr
  | .e (.un _ op x) => pure (.e (.bin false (toExpr v1) op x))
  | _ => throw "AttributeError"

/-- left fold of `BasicOpExp` elements into binary expressions (`visit_num_exp`, `visit_bool_or_exp`) -/
def foldOps (boolean : Bool) (vs : List Val) : Except String Val := do
  let exp1 := kid vs 0
  match kid vs 2 with
  | .list ops =>
      ops.foldlM (fun (acc : Val) (o : Val) => match o with
        | .e (.un _ op x) => pure (Val.e (.bin boolean (toExpr acc) op x))
        | _ => throw "AttributeError") exp1
  | .str s => if s.isEmpty then pure exp1 else throw "AttributeError"
  | _ => throw "AttributeError"

/-- `BasicDimStatement(dim_vars)`: array entries get every bound + 1 and lose the `arr_` prefix
(the emission adds it again) -/
def bumpBound : Expr → Except String Expr
  | .lit (.int m) _ => pure (Expr.lit (.int (m + 1)) false)
  | .lit (.flt _) _ => throw "unmodelled-float-bound"
  | .lit (.str _) _ => throw "TypeError"
  | .hex h _ => pure (Expr.hex (h + 1) false)
  | _ => throw "AttributeError"

def dimEntry (v : Val) : Except String Expr :=
  match v with
  | .e (.var n b) => pure (.var n b)
  | .e (.arr (.var n _) (.mk _ idx) isS) => do
      let idx' ← idx.mapM bumpBound
      -- BasicArrayRef(BasicVar(name[4:]), …) puts `arr_` in front again
      pure (.arr (.var ("arr_" ++ (n.drop 4).toString) isS) (.mk true idx') isS)
  | _ => throw "AttributeError"

def isBoolExp : Val → Bool
  | .e (.bin true ..) | .e (.un true ..) | .e (.paren true ..) => true
  | _ => false

/-- the statements of a `BasicStatements`, a goto, … as the `Stmt` the dump shows -/
def stmtsOf (vs : List Val) (multi : Bool) : Val := .stmt (.stmts multi (vs.map toStmt) [])

def listOf : Val → List Val
  | .list vs => vs
  | _ => []

def visitInputStatement (vs : List Val) : Except String Val :=
  let k := kid vs
  let isLine := !(k 0 matches .str "")
  let msg : Expr := match k 4 with
    | .e (.lit (.str s) _) => .lit (.str (if isLine then s else s ++ "? ")) true
    | _ => .lit (.str (if isLine then "" else "? ")) true
  pure (.stmt (.input (some msg) (toExprs (k 6 :: listOf (k 8)))))

/-- the plain IF form: a condition that is not one of the three boolean classes is compared with 0 -/
def visitIfStmnt (exp body : Val) : Val :=
  let c := if isBoolExp exp then toExpr exp else .bin true (toExpr exp) "<>" (.lit (.flt "0.0") false)
  .stmt (.if_ c (toStmt body) [])

def visitCls (vs : List Val) : Except String Val :=
  pure (.stmt (.cls (if isExpression (kid vs 2) then some (toExpr (kid vs 2)) else Option.none) []))

def visitHscreen (vs : List Val) : Except String Val :=
  pure (runCall "run ecb_hscreen" [if isExpression (kid vs 2) then kid vs 2 else litInt 0, display])

def visitHcls (vs : List Val) : Except String Val :=
  pure (runCall "run ecb_hcls" [if isExpression (kid vs 2) then kid vs 2 else litInt (-1), display])

def visitNumLiteral (env : Env) (text : String) : Except String Val :=
  match env.floatRepr (noBlanks text) with
  | some r => pure (litFlt r)
  | Option.none => throw "ValueError"

def visitIntLiteral (text : String) : Except String Val :=
  match (noBlanks text).toInt? with
  | some n => pure (litInt n)
  | Option.none => throw "ValueError"

def visitHexLiteral (isFloat : Bool) (text : String) : Except String Val := do
  pure (.e (.hex (← parseHex (afterH text)) isFloat))

def visitStrLiteral (text : String) : Val := litStr ((text.drop 1).toString.dropEnd 1).toString true
def visitVar (text : String) : Val := varOf (text.take 2).toString false
def visitStrVar (text : String) : Val := varOf (((text.dropEnd 1).toString.take 2).toString ++ "$") true
def visitClear (text : String) : Val := .stmt (.comment (" " ++ pyStrip text))

/-- methods the visitor class defines, by rule name; `generic` otherwise -/
def visitNamed (env : Env) (name text : String) (vs : List Val) : Except String Val := do
  let k := kid vs
  match name with
  | "aaa_prog" => match k 1 with
      | .list ls => pure (.prog { lines := ls.filterMap (fun l => match l with | .line x => some x | _ => Option.none) })
      | _ => throw "TypeError"
  | "arr_assign" | "str_arr_assign" =>
      pure (.stmt (.assign (k 0 matches .str "" |> not) (toExpr (k 2)) (toExpr (k 6)) []))
  | "array_ref_exp" => arrayRef (k 0) (k 2) false
  | "str_array_ref_exp" => arrayRef (k 0) (k 2) true
  | "comment" => match k 1 with
      | .str s => pure (.stmt (.comment s))
      | _ => pure (.stmt (.comment unmodelled))
  | "comment_text" => pure (.str text)
  | "exp" => match k 0 with
      | .e (.op o) => pure (.e (.un false o (toExpr (k 2))))
      | _ => pure (k 2)
  | "exp_list" => pure (.elist true (k 2 :: listOf (k 4)))
  | "exp_sublist" | "else_if_stmnts" | "bool_or_exp_elements" | "bool_and_exp_elements" | "num_gtle_sub_exps"
  | "num_exp_elements" | "num_and_exp_elements" | "str_exp_elements" | "multi_line_elements"
  | "num_prod_sub_exps" | "num_power_sub_exps" | "num_sum_sub_exps" | "linenum_list0" | "var_list_elements"
  | "dim_array_var_list_elements" | "rhs_list_elements" | "attr_option_list" | "hpaint_2arg" =>
      pure (.list vs)
  | "exp_sublist_mbr" | "str_exp_element" | "linenum_list_elem" | "var_list_element" | "dim_array_var_list_element"
  | "rhs_list_element" | "attr_option_list_element" | "hpaint_arg" | "hcircle_optional" | "else_stmnt" =>
      pure (k 2)
  | "else_stmnts" => pure (match vs with | v :: _ => v | [] => .none)
  | "if_if_else_stmnt" =>
      pure (.stmt (.ifElse (toExpr (k 2)) (toStmt (k 6)) ((listOf (k 8)).map toStmt)
        (match k 9 with | .none => Option.none | v => some (toStmt v)) []))
  | "if_else_stmnt" =>
      pure (.stmt (.ifElse (toExpr (k 2)) (toStmt (k 6)) []
        (match k 8 with | .none => Option.none | v => some (toStmt v)) []))
  | "if_stmnt" => pure (visitIfStmnt (k 2) (k 6))
  | "else_if_stmnt" => pure (.stmt (.if_ (toExpr (k 4)) (toStmt (k 8)) []))
  | "if_exp" | "bool_val_exp" | "literal" | "str_simple_exp" | "lhs" | "unop" | "statement" | "last_statement"
  | "statements_else" | "print_arg1" | "print_arg" | "dim_element0" | "dim_var" | "data_element" | "data_num_element0"
  | "data_str_element" | "rhs" | "next_statement" | "hpaint_args" | "dim_array_var" =>
      pure (k 0)
  | "bool_exp" => match k 0 with
      | .e (.op o) => pure (.e (.un true o (toExpr (k 2))))
      | _ => pure (k 2)
  | "bool_or_exp" | "bool_and_exp" => foldOps true vs
  | "bool_or_exp_element" => pure (.e (.un true "OR" (toExpr (k 2))))
  | "bool_and_exp_element" => pure (.e (.un true "AND" (toExpr (k 2))))
  | "bool_paren_exp" => do pure (.e (.paren true (toExpr (k 2)) (← strFlagOf (k 2))))
  | "bool_bin_exp" | "bool_str_exp" => match k 2 with
      | .e (.op o) => pure (.e (.bin true (toExpr (k 0)) o (toExpr (k 4))))
      | _ => throw "AttributeError"
  | "num_gtle_exp" | "num_prod_exp" | "num_power_exp" | "num_sum_exp" => binaryExp vs
  | "num_gtle_sub_exp" | "num_prod_sub_exp" | "num_power_sub_exp" | "num_sum_sub_exp" => pure (.frag (k 0) (k 2))
  | "line" => match k 0, vs.find? (fun v => match v with | .stmt (.stmts ..) => true | _ => false) with
      | .int n, some (.stmt s) => pure (.line { num := some n, body := s })
      | _, _ => throw "StopIteration"
  | "linenum" => match text.toInt? with
      | some n => pure (.int n)
      | Option.none => throw "ValueError"
  | "line_or_stmnts" => match k 0 with
      | .int n => pure (.stmt (.goto n true false []))
      | v => pure v
  | "explicit_line_or_stmnts" => match k 0 with
      | .int n => pure (.stmt (.goto n false false []))
      | v => pure v
  | "num_exp" | "num_and_exp" => foldOps false vs
  | "num_exp_element" => pure (.e (.un false "OR" (toExpr (k 2))))
  | "num_and_exp_element" => pure (.e (.un false "AND" (toExpr (k 2))))
  | "str_exp" => match k 2 with
      | .list es => pure (es.foldl (fun acc x => Val.e (.bin false (toExpr acc) "+" (toExpr x))) (k 0))
      | _ => pure (k 0)
  | "str2_func_exp" => do
      pure (.e (.call (← lookup env.str2Functions (← nodeText (k 0))) (.mk true [toExpr (k 4), toExpr (k 8)]) true))
  | "str3_func_exp" => do
      pure (.e (.call (← lookup env.str3Functions (← nodeText (k 0)))
        (.mk true [toExpr (k 4), toExpr (k 8), toExpr (k 12)]) true))
  | "num_str_func_exp" => do
      pure (.e (.call (← lookup env.numStrFunctions (← nodeText (k 0))) (.mk true [toExpr (k 4)]) true))
  | "num_str_func_exp_statements" => do
      pure (.e (.fexp false (← lookup env.numStrFunctionsToStatements (← nodeText (k 0))) (.mk true [toExpr (k 4)]) true Option.none))
  | "str_func_exp_statements" => do
      pure (.e (.fexp false (← lookup env.strFunctionsToStatements (← nodeText (k 0))) (.mk true []) true Option.none))
  | "multi_line" => pure (.list (k 0 :: listOf (k 2)))
  | "multi_line_element" => pure (k 1)
  | "num_literal" => visitNumLiteral env text
  | "int_literal" => visitIntLiteral text
  | "int_hex_literal" => visitHexLiteral false text
  | "hex_literal" => visitHexLiteral true text
  | "unop_exp" => match k 0 with
      | .e (.op o) => pure (.e (.un false o (toExpr (k 2))))
      | _ => throw "AttributeError"
  | "paren_exp" => do pure (.e (.paren false (toExpr (k 2)) (← strFlagOf (k 2))))
  | "func_exp" => do
      pure (.e (.call (← lookup env.functions (← nodeText (k 0))) (.mk true [toExpr (k 4)]) false))
  | "func_str_exp" => do
      let f ← lookup env.strNumFunctions (← nodeText (k 0))
      if f.startsWith "RUN " then pure (.e (.fexp false f (.mk true [toExpr (k 4)]) false Option.none))
      else pure (.e (.call f (.mk true [toExpr (k 4)]) false))
  | "num_assign" | "str_assign" =>
      pure (.stmt (.assign (k 0 matches .str "" |> not) (toExpr (k 2)) (toExpr (k 6)) []))
  | "space" => pure (.str text)
  | "statements" =>
      let first := if truthy (k 0) then [k 0] else []
      let mid := listOf (k 2)
      let last := if truthy (k 4) then [k 4] else []
      pure (stmtsOf (first ++ mid ++ last) true)
  | "partial_str_arr_assign" => do
      let t ← nodeText (k 6)
      pure (.stmt (.assign (k 0 matches .str "" |> not) (toExpr (k 2)) (.lit (.str (t.drop 1).toString) false) []))
  | "partial_str_assign" => do
      let t ← nodeText (k 6)
      -- let_kw is passed on as it is (a node or ""), the dump shows its truth value
      pure (.stmt (.assign (truthy (k 0)) (toExpr (k 2)) (.lit (.str (t.drop 1).toString) false) []))
  | "statements_elements" => pure (.list (vs.filter truthy))
  | "statements_element" => pure (if truthy (k 2) then k 2 else .none)
  | "str_literal" => pure (visitStrLiteral text)
  | "val_exp" => pure (if vs.length < 2 then k 0 else .node text)
  | "var" => pure (visitVar text)
  | "str_var" => pure (visitStrVar text)
  | "print_statement" => match k 2 with
      | .pargs a => pure (.stmt (.print (toExprs a) []))
      | _ => throw "AttributeError"
  | "print_at_statement" => match k 8 with
      | .pargs a => pure (.stmt (.stmts false [.run "run" "RUN ecb_at" (.mk true [toExpr (k 4)]) [], .print (toExprs a) []] []))
      | _ => throw "AttributeError"
  | "print_at_statement0" => pure (runCall "RUN ecb_at" [k 4])
  | "print_args" => pure (.pargs vs)
  | "print_arg0" => pure (k 0)
  | "print_control" => pure (.e (.ctl text))
  | "sound" => pure (.stmt (.sound (toExpr (k 2)) (toExpr (k 6)) []))
  | "poke_statement" => pure (.stmt (.poke (toExpr (k 2)) (toExpr (k 6)) []))
  | "cls" => visitCls vs
  | "statement2" => do pure (runCall (← lookup env.statements2 (← nodeText (k 0))) [k 4, k 8])
  | "statement3" => do pure (runCall (← lookup env.statements3 (← nodeText (k 0))) [k 4, k 8, k 12])
  | "go_statement" => do
      let t ← nodeText (k 0)
      match k 2 with
      | .int n => pure (.stmt (.goto n false (t == "GOSUB") []))
      | _ => throw "TypeError"
  | "on_n_go_statement" => do
      let t ← nodeText (k 4)
      let ns ← (listOf (k 6)).mapM (fun v => match v with | .int n => pure n | _ => throw "TypeError")
      pure (.stmt (.onGo (toExpr (k 2)) ns (t == "GOSUB") []))
  | "linenum_list" | "dim_array_var_list" => pure (.list (k 0 :: listOf (k 2)))
  | "data_statement" => pure (.stmt (.data (toEList (k 2)) []))
  | "data_elements" => match k 2 with
      | .elist _ rest => pure (.elist false (k 0 :: rest))
      | _ => throw "AttributeError"
  | "dim_array_var1" => do arrayRef (k 0) (.elist true [k 4]) (← strFlagOf (k 0))
  | "dim_array_var2" => do arrayRef (k 0) (.elist true [k 4, k 8]) (← strFlagOf (k 0))
  | "dim_array_var3" => do arrayRef (k 0) (.elist true [k 4, k 8, k 12]) (← strFlagOf (k 0))
  | "data_element0" => pure (k 2)
  | "data_elements0" => pure (.elist false vs)
  | "data_num_element" | "data_str_element0" => pure (k 1)
  | "data_str_element1" => pure (k 1)
  | "data_str_literal" => pure (litStr text false)
  | "single_kw_statement" => do
      pure (.stmt (.kw (← lookup env.singleKeywordStatements (← nodeText (k 0))) []))
  | "for_statement" => pure (.stmt (.for_ (toExpr (k 2)) (toExpr (k 6)) (toExpr (k 10)) Option.none []))
  | "for_step_statement" => pure (.stmt (.for_ (toExpr (k 2)) (toExpr (k 6)) (toExpr (k 10)) (some (toExpr (k 14))) []))
  | "next_var_statement" => pure (.stmt (.next (toEList (k 2)) []))
  | "next_empty_statement" => pure (.stmt (.next (.mk true []) []))
  | "var_list" => pure (.elist false (k 0 :: listOf (k 2)))
  | "func_to_statements" => do
      pure (.e (.fexp false (← lookup env.functionsToStatements (← nodeText (k 0))) (.mk true [toExpr (k 4)]) false Option.none))
  | "func_to_statements2" => do
      pure (.e (.fexp false (← lookup env.functionsToStatements2 (← nodeText (k 0)))
        (.mk true [toExpr (k 4), toExpr (k 8)]) false Option.none))
  | "joystk_to_statement" => pure (.e (.fexp true "RUN ecb_joystk" (.mk true [toExpr (k 4)]) false Option.none))
  | "dim_statement" => do
      let entries ← (listOf (k 2)).mapM dimEntry
      pure (.stmt (.dim entries false 32 [] []))
  | "clear_statement" => pure (visitClear text)
  | "read_statement" => pure (.stmt (.read (toExprs (k 2 :: listOf (k 4))) [] 0))
  | "input_statement" => visitInputStatement vs
  | "input_str_literal" => pure (k 0)
  | "varptr_expr" => pure (.e (.varptr (toExpr (k 4))))
  | "instr_expr" =>
      pure (.e (.fexp false "run ecb_instr" (.mk true [toExpr (k 4), toExpr (k 8), toExpr (k 12)]) false Option.none))
  | "string_expr" =>
      pure (.e (.fexp false "run ecb_string" (.mk true [toExpr (k 4), toExpr (k 8)]) true Option.none))
  | "width_statement" => pure (.stmt (.width (toExpr (k 2)) []))
  | "locate_statement" => pure (runCall "run ecb_locate" [k 2, k 6])
  | "attr_statement" =>
      let opts := listOf (k 8)
      let has (c : String) := opts.any (fun v => match v with | .str s => s == c | _ => false)
      pure (runCall "run ecb_attr" [k 2, k 6, litFlt (if has "B" then "1.0" else "0.0"),
        litFlt (if has "U" then "1.0" else "0.0"), display])
  | "attr_option" | "draw_mode" => pure (.str text)
  | "reset_colors_statement" => do
      pure (runCall ("run ecb_set_palette_" ++ (← nodeText (k 0)).toLower) [display])
  | "palette_reset_statement" => do
      pure (runCall ("run ecb_set_palette_" ++ (← nodeText (k 2)).toLower) [display])
  | "palette_statement" => pure (runCall "run ecb_set_palette" [k 2, k 6, display])
  | "hscreen_statement" => visitHscreen vs
  | "hcls_statement" => visitHcls vs
  | "hcircle_prefix" => match k 2 with
      | .coords x y => pure (.circle x y (k 5) Option.none)
      | _ => throw "AttributeError"
  | "hcircle_statement" => match k 0 with
      | .circle x y r _ => pure (.circle x y r (if k 1 matches .str "" then Option.none else some (k 1)))
      | _ => throw "AttributeError"
  | "hellipse_statement" => match k 0 with
      | .circle x y r _ => pure (.ellipse x y r (if k 1 matches .str "" then Option.none else some (k 1)) (k 4))
      | _ => throw "AttributeError"
  | "harc_statement" => match k 0 with
      | .ellipse x y r c ratio =>
          let color : Expr := match c with
            | some v => toExpr v
            | Option.none => .stmtExp (.run "run" "float" (.mk true [.var "display.hfore" false]) [])
          pure (.stmt (.run "run" "run ecb_harc" (.mk true [toExpr x, toExpr y, toExpr r, color, toExpr ratio,
            toExpr (k 3), toExpr (k 7), .var "display" false]) []))
      | _ => throw "AttributeError"
  | "hprint_statement" => do
      let exp := k 14
      let isStr ← strFlagOf exp
      let item : Expr := if isStr then toExpr exp else .fexp false "run ecb_str" (.mk true [toExpr exp]) false Option.none
      pure (.stmt (.run "run" "run ecb_hprint" (.mk true [toExpr (k 4), toExpr (k 8), item, .var "display" false]) []))
  | "on_brk_go_statement" => match k 6 with
      | .int n => pure (.stmt (.onBrk n []))
      | _ => throw "TypeError"
  | "on_err_go_statement" => match k 6 with
      | .int n => pure (.stmt (.onErr n []))
      | _ => throw "TypeError"
  | "hcolor_statement" => pure (runCall "run ecb_hcolor" [k 2, k 6, display])
  | "hcolor1_statement" => pure (runCall "run ecb_hcolor" [k 2, litFlt "-1.0", display])
  | "coords" => pure (.coords (k 2) (k 6))
  | "coords3" => pure (.coords3 (k 2) (k 6) (k 10))
  | "hline_statement" => match k 2, k 4 with
      | .coords sx sy, .suffix (.coords dx dy) mode lt =>
          pure (runCall "run ecb_hline" [litStr "d" false, sx, sy, dx, dy, (match mode with | .str m => litStr m false | v => v),
            (match lt with | .str m => litStr m false | v => v), display])
      | _, _ => throw "AttributeError"
  | "hline_relative_statement" => match k 2 with
      | .suffix (.coords dx dy) mode lt =>
          pure (runCall "run ecb_hline" [litStr "r" false, litFlt "0.0", litFlt "0.0", dx, dy,
            (match mode with | .str m => litStr m false | v => v), (match lt with | .str m => litStr m false | v => v), display])
      | _ => throw "AttributeError"
  | "line_suffix" => pure (.suffix (k 2) (k 6) (k 7))
  | "pset_or_preset" => do pure (.str (← nodeText (k 0)))
  | "line_options_option" => match vs with
      | [] => pure (.str "L")
      | [.str "B"] => pure (.str "B")
      | _ => pure (.str "BF")
  | "line_options" => do pure (.str (← nodeText (k 2)))
  | "hreset_statement" => match k 2 with
      | .coords x y | .coords3 x y _ => pure (runCall "run ecb_hreset" [x, y, display])
      | _ => throw "AttributeError"
  | "hset_statement" => match k 2 with
      | .coords x y | .coords3 x y _ => pure (runCall "run ecb_hset" [x, y, display])
      | _ => throw "AttributeError"
  | "hset3_statement" => match k 2 with
      | .coords3 x y z => pure (runCall "run ecb_hset3" [x, y, z, display])
      | _ => throw "AttributeError"
  | "erno_expr" => pure (varOf "erno" false)
  | "play_statement" => pure (runCall "run ecb_play" [k 2, varOf "play" false])
  | "hdraw_statement" => pure (runCall "run ecb_hdraw" [k 2, display])
  | "hbuff_statement" => pure (.stmt (.run "hbuff" "run _ecb_hbuff" (.mk true [toExpr (k 2), toExpr (k 6), .var "pid" false, .var "display" false]) []))
  | "hget_statement" => match k 2, k 5 with
      | .coords x1 y1, .coords x2 y2 => pure (runCall "run ecb_hget" [x1, y1, x2, y2, k 8, varOf "pid" false, display])
      | _, _ => throw "AttributeError"
  | "hput_statement" => match k 2, k 5 with
      | .coords x1 y1, .coords x2 y2 =>
          let action := match k 12 with | .str a => litStr a false | v => v
          pure (runCall "run ecb_hput" [x1, y1, x2, y2, k 8, action, varOf "pid" false, display])
      | _, _ => throw "AttributeError"
  | "hpaint_statement" => match k 2 with
      | .coords x y =>
          let args := listOf (k 4)
          let dflt : Val := .e (.call "FLOAT" (.mk true [.var "display.hfore" false]) false)
          pure (runCall "run ecb_hpaint" [x, y, args.getD 0 dflt, args.getD 1 dflt, display])
      | _ => throw "AttributeError"
  | "hpaint_1arg" => pure (.list (vs.take 1))
  | _ => throw "no-such-visitor"

/-- `generic_visit` -/
def genericVisit (text : String) (vs : List Val) : Except String Val :=
  if isBlank text then pure (.str "") else
  if operators.contains text then pure (.e (.op text)) else
  match vs with
  | [a, _, c, _] =>
      (match a with
       | .e (.op o) => pure (.e (.un false o (toExpr c)))
       | _ => pure (.node text))
  | [a] => if isConstruct a then pure a else pure (.node text)
  | [a, b] =>
      (match a, b with
       | .e (.un _ o1 x1), .e (.un _ o2 x2) => pure (.e (.un false o1 (.bin false x1 o2 x2)))
       | _, _ => throw "TypeError")          -- isinstance(x, node) with a Node instance as the class
  | _ => pure (.node text)

-- post-order walk.  The tree is finite; recursion is on its structure.
mutual
  def visitTree (env : Env) : PTree → Except String Val
    | .node name s e kids => do
        let vs ← visitKids env kids
        let text := textOf env.inp s e
        if !name.isEmpty && env.visitMethods.contains name then visitNamed env name text vs
        else genericVisit text vs
  def visitKids (env : Env) : List PTree → Except String (List Val)
    | [] => pure []
    | t :: ts => do
        let v ← visitTree env t
        let rest ← visitKids env ts
        pure (v :: rest)
end

end CocoVerif.Model.Front
