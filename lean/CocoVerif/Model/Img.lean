/-
Executable models of the seven image decoders of coco-tools
(`coco/{hrstoppm,pixtopgm,maxtoppm,mgetoppm,cm3toppm,rattoppm,veftopng}.py`).

The models do what the code does, defects included.  A Python exception, a
`sys.exit`, or MAX's `return False` is a value: `Except String Bytes` where the
string is the exception class name the harness also reports for the real code.

Bytes are `Nat`s (always < 256 when they come from a file).  `c >> k` is `c / 2^k`,
`c & (2^k-1)` is `c % 2^k`, `getbit c i` is `c / 2^i % 2`: on naturals these are
the same functions, and `omega` understands them.

No Mathlib import: this file is linked into the `driver` executable.
-/
namespace CocoVerif.Model.Img

abbrev Bytes := List Nat

/-- `coco.util.getbit` -/
def getbit (c i : Nat) : Nat := c / 2 ^ i % 2

/-- the `dump`/`dmp500` colour formula shared by hrs, mge, cm3 and rat -/
def rgb6 (c : Nat) : Bytes :=
  [ (getbit c 5 * 2 + getbit c 2) * 85,
    (getbit c 4 * 2 + getbit c 1) * 85,
    (getbit c 3 * 2 + getbit c 0) * 85 ]

def strBytes (s : String) : Bytes := s.toList.map Char.toNat

/-- `"P6\n{w} {h}\n255\n"` -/
def ppmHeader (magic : String) (w h : Nat) : Bytes :=
  strBytes magic ++ [10] ++ strBytes (toString w) ++ [32] ++ strBytes (toString h) ++ [10]
    ++ strBytes "255" ++ [10]

/-- `palette[x]` followed by the colour formula; Python raises IndexError on a short palette -/
def dumpPal (pal : Bytes) (x : Nat) : Except String Bytes :=
  match pal[x]? with
  | some c => .ok (rgb6 c)
  | none => .error "IndexError"

/-- `dump(c >> 4); dump(c & 15)` -/
def dumpByte (pal : Bytes) (c : Nat) : Except String Bytes := do
  let a ← dumpPal pal (c / 16)
  let b ← dumpPal pal (c % 16)
  pure (a ++ b)

/-- `n` times: `c = ord(f.read(1))` (TypeError at end of input) then `dumpByte`.
Returns the samples, the bytes read (cm3 keeps them as its line buffer) and the rest. -/
def readDump (pal : Bytes) : Nat → Bytes → Except String (Bytes × Bytes × Bytes)
  | 0, bs => pure ([], [], bs)
  | _ + 1, [] => throw "TypeError"
  | n + 1, c :: rest => do
      let d ← dumpByte pal c
      let (out, rd, rest') ← readDump pal n rest
      pure (d ++ out, c :: rd, rest')

/-! ### HRS -/

def hrs (w h skip : Nat) (bs : Bytes) : Except String Bytes := do
  let bs := bs.drop skip
  let pal := bs.take 16
  let (body, _, _) ← readDump pal (h * (w / 2)) (bs.drop 16)
  pure (ppmHeader "P6" w h ++ body)

/-! ### PIX  (the file size is the length of the input) -/

/-- the two assignments into `s` for one byte read at (x, y) -/
def pixSet (side : Nat) (s : Bytes) (x y v : Nat) : Bytes :=
  (s.set ((x + x) * side + y) (255 - (v / 16) * 17)).set ((x + x + 1) * side + y) (255 - (v % 16) * 17)

/-- inner loop over `x in range(side // 2)` starting at `x`; `k` bytes left to read in this row -/
def pixRow (side y : Nat) : Nat → Nat → Bytes → Bytes → Except String (Bytes × Bytes)
  | 0, _, s, bs => pure (s, bs)
  | _ + 1, _, _, [] => throw "TypeError"
  | k + 1, x, s, v :: rest => pixRow side y k (x + 1) (pixSet side s x y v) rest

def pixRows (side : Nat) : Nat → Nat → Bytes → Bytes → Except String Bytes
  | 0, _, s, _ => pure s
  | k + 1, y, s, bs => do
      let (s', bs') ← pixRow side y (side / 2) 0 s bs
      pixRows side k (y + 1) s' bs'

def pix (bs : Bytes) : Except String Bytes := do
  let sz := bs.length
  let side := Nat.sqrt (sz * 2)
  let s ← pixRows side side 0 (List.replicate (sz * 2) 97) bs
  pure (ppmHeader "P5" side side ++ s)

/-! ### MAX / ART -/

def br2 : List Bytes := [[0, 0, 0], [255, 85, 0], [0, 170, 255], [255, 255, 255]]
def br3 : List Bytes := [[0, 0, 0], [255, 0, 0], [0, 0, 255], [255, 255, 255]]
def semig : List Bytes :=
  [[0, 0, 0], [0, 255, 0], [255, 255, 0], [0, 0, 255], [255, 0, 0], [255, 255, 255],
   [0, 211, 170], [204, 0, 255], [255, 128, 0]]

def tbl (t : List Bytes) (i : Nat) : Bytes := t.getD i []

/-- one byte in the eight table-driven modes 0,3..8 (mode numbers as in maxtoppm.py) -/
def maxByteTable (arte v : Nat) : Bytes :=
  let pair (k : Nat) := (getbit v (7 - k - k), getbit v (6 - k - k))
  let four (f : Nat → Nat → Bytes) : Bytes :=
    (List.range 4).flatMap (fun k => let (a, b) := pair k; f a b ++ f a b)
  match arte with
  | 0 => (List.range 8).flatMap (fun k => tbl br2 (getbit v (7 - k) * 3))
  | 3 => four (fun a b => tbl br2 (a * 2 + b))
  | 4 => four (fun a b => tbl br2 (a + b * 2))
  | 5 => four (fun a b => tbl br3 (a * 2 + b))
  | 6 => four (fun a b => tbl br3 (a + b * 2))
  | 7 => four (fun a b => tbl semig (1 + a + b * 2))
  | 8 => four (fun a b => tbl semig (5 + a + b * 2))
  | _ => []

structure ArtState where
  oy : Int
  x  : Int
  r2 : Int
  g2 : Int
  b2 : Int

def clip (v : Int) : Int := if v > 255 then 255 else if v < 0 then 0 else v

/-- `int(y + c/10000 * i)`: Python's `int` truncates towards zero; the product is exact in
ten-thousandths and, for the reachable `i ≠ 0`, never within float error of an integer. -/
def fmix (y i c : Int) : Int := (10000 * y + c * i).tdiv 10000

/-- one pixel of the `-br` / `-rb` artifact filter (`>>` on Python ints is floor division) -/
def artPixel (st : ArtState) (bit : Nat) : Bytes × ArtState :=
  let ny : Int := (bit : Int) * 255
  let y : Int := (st.oy + ny + ny / 4) / 2
  let i : Int := (st.x * (y - st.oy)) / 128
  let r := clip (fmix y i 9563)
  let g := clip (fmix y i (-2721))
  let b := clip (fmix y i (-11070))
  ([((r + st.r2) / 2).toNat, ((g + st.g2) / 2).toNat, ((b + st.b2) / 2).toNat],
   { oy := ny, x := -st.x, r2 := r, g2 := g, b2 := b })

def artBits (v : Nat) : List Nat := (List.range 8).map (fun k => getbit v (7 - k))

/-- one byte in mode 1/2: note that `x` is re-initialised for every byte, the rest carries over -/
def artByte (arte : Nat) (st : ArtState) (v : Nat) : Bytes × ArtState :=
  let st0 := { st with x := if arte == 1 then -100 else 100 }
  (artBits v).foldl (fun (acc : Bytes × ArtState) bit =>
      let (o, s') := artPixel acc.2 bit
      (acc.1 ++ o, s')) ([], st0)

def maxRow (arte : Nat) (row : Bytes) : Bytes :=
  if arte == 1 || arte == 2 then
    (row.foldl (fun (acc : Bytes × ArtState) v =>
        let (o, s') := artByte arte acc.2 v
        (acc.1 ++ o, s')) ([], { oy := 0, x := 0, r2 := 0, g2 := 0, b2 := 0 })).1
  else row.flatMap (maxByteTable arte)

/-- `for jj in range(rows): row = f.read(cols >> 3)` — a multi-byte read is silently short -/
def maxRows (arte cols : Nat) : Nat → Bytes → Bytes
  | 0, _ => []
  | k + 1, bs => maxRow arte (bs.take (cols / 8)) ++ maxRows arte cols k (bs.drop (cols / 8))

structure MaxOpts where
  arte : Nat := 0
  newsroom : Bool := false
  cols : Nat := 256
  rows : Option Nat := none
  skip : Nat := 0
  ignore : Bool := false

/-- `maxtoppm.convert`; `.error "False"` is the documented failure result -/
def max (o : MaxOpts) (bs0 : Bytes) : Except String Bytes := do
  let bs := bs0.drop o.skip
  if o.newsroom then
    let head := bs.take 2
    match head with
    | [c, r] =>
        let cols := c * 8
        pure (ppmHeader "P6" cols r ++ maxRows o.arte cols r (bs.drop 2))
    | _ => throw "IndexError"
  else
    let head := bs.take 5
    match head[0]? with
    | none => throw "IndexError"
    | some h0 =>
      if h0 ≠ 0 && !o.ignore then throw "False" else
      match o.rows with
      | some r => pure (ppmHeader "P6" o.cols r ++ maxRows o.arte o.cols r (bs.drop 5))
      | none =>
        match head[1]?, head[2]? with
        | some h1, some h2 =>
            let size := h1 * 256 + h2
            let rows := 8 * size / o.cols
            if o.cols * rows / 8 ≠ size && !o.ignore then throw "False" else
            pure (ppmHeader "P6" o.cols rows ++ maxRows o.arte o.cols rows (bs.drop 5))
        | _, _ => throw "IndexError"

/-! ### MGE -/

def c2r : Bytes :=
  [0, 21, 2, 20, 6, 49, 35, 4, 33, 5, 14, 1, 12, 10, 3, 28, 7, 17, 16, 22, 48, 34, 37, 32,
   44, 40, 42, 13, 8, 11, 24, 26, 56, 19, 18, 50, 54, 52, 38, 36, 46, 45, 41, 15, 9, 25, 27,
   30, 63, 58, 23, 51, 55, 53, 39, 60, 47, 61, 43, 57, 29, 31, 59, 62]

/-- `[ord(f.read(1)) for _ in range(n)]` -/
def readN : Nat → Bytes → Except String (Bytes × Bytes)
  | 0, bs => pure ([], bs)
  | _ + 1, [] => throw "TypeError"
  | n + 1, c :: rest => do
      let (a, r) ← readN n rest
      pure (c :: a, r)

def read1 : Bytes → Except String (Nat × Bytes)
  | [] => throw "TypeError"
  | c :: rest => pure (c, rest)

def mapM' (f : Nat → Except String Nat) : Bytes → Except String Bytes
  | [] => pure []
  | c :: cs => do
      let a ← f c
      let r ← mapM' f cs
      pure (a :: r)

/-- `for jj in range(b): dump(a); y -= 1; if y <= 0: break` (samples, new y) -/
def mgeRun (d : Bytes) : Nat → Int → Bytes × Int
  | 0, y => ([], y)
  | k + 1, y =>
      if y - 1 ≤ 0 then (d, y - 1)
      else let (o, y') := mgeRun d k (y - 1); (d ++ o, y')

/-- the `(count, value)` loop; terminates because every round consumes input -/
def mgeRle (pal : Bytes) : Bytes → Int → Except String Bytes
  | [], _ => throw "TypeError"
  | b :: rest, y =>
      if b = 0 then pure [] else
      match rest with
      | [] => throw "TypeError"
      | a :: rest' => do
          let d ← dumpByte pal a
          let (o, y') := mgeRun d b y
          let r ← mgeRle pal rest' y'
          pure (o ++ r)

/-- `c2r[palette[ii]]` -/
def c2rLookup (p : Nat) : Except String Nat :=
  match c2r[p]? with | some v => .ok v | none => .error "IndexError"

def mge (bs : Bytes) : Except String Bytes := do
  let (a, bs) ← read1 bs
  if a ≠ 0 then throw "SystemExit"
  let (pal0, bs) ← readN 16 bs
  let (rgbFlag, bs) ← read1 bs
  let pal ← if rgbFlag = 0 then pure pal0 else
      mapM' c2rLookup pal0
  let (packedB, bs) ← read1 bs
  let tit := bs.take 30
  let bs := bs.drop 30
  if !tit.contains 0 then throw "ValueError"
  let (_, bs) ← readN 2 bs
  let hdr := ppmHeader "P6" 320 200
  if packedB = 0 then
    let body ← mgeRle pal bs 32000
    pure (hdr ++ body)
  else
    let (body, _, _) ← readDump pal 32000 bs
    pure (hdr ++ body)

/-! ### RAT -/

/-- `dump(c >> 4); dump(c & 7)` -/
def ratDump (pal : Bytes) (c : Nat) : Except String Bytes := do
  let a ← dumpPal pal (c / 16)
  let b ← dumpPal pal (c % 8)
  pure (a ++ b)

def replicateApp (n : Nat) (d : Bytes) : Bytes := (List.replicate n d).flatten

/-- `while ii > 0:` — every round reads at least one byte, `ii` may overshoot below zero -/
def ratLoop (esc : Nat) (pal : Bytes) (bs : Bytes) (ii : Int) : Except String Bytes :=
  if ii ≤ 0 then pure [] else
  match bs with
  | [] => throw "TypeError"
  | c :: rest =>
    if c ≠ esc then do
      let d ← ratDump pal c
      let r ← ratLoop esc pal rest (ii - 1)
      pure (d ++ r)
    else
      match rest with
      | rep :: c' :: rest' =>
          if rep = 0 then ratLoop esc pal rest' ii else do
            let d ← ratDump pal c'
            let r ← ratLoop esc pal rest' (ii - rep)
            pure (replicateApp rep d ++ r)
      | _ => throw "TypeError"
termination_by bs.length

def rat (bs : Bytes) : Except String Bytes := do
  let (esc, bs) ← read1 bs
  let (packed, bs) ← read1 bs
  let bs := bs.drop 1
  if packed = 0 then throw "Exception"
  let pal := bs.take 16
  let body ← ratLoop esc pal (bs.drop 16) (199 * 160)
  pure (ppmHeader "P6" 320 199 ++ body)

/-! ### CM3 -/

/-- bit `j` (MSB first) of a byte buffer; `none` when the buffer is too short -/
def bufBit (buf : Bytes) (j : Nat) : Option Nat :=
  (buf[j / 8]?).map (fun b => getbit b (7 - j % 8))

/-- pixels `x .. 159` of a compressed line.  `j` counts the bits taken from `buff2`.
Returns samples, the new line buffer and the remaining input. -/
def cm3Packed (pal b1 b2 : Bytes) : Nat → Nat → Nat → Bytes → Bytes → Except String (Bytes × Bytes × Bytes)
  | 0, _, _, lin, bs => pure ([], lin, bs)
  | k + 1, x, j, lin, bs => do
      let cc ← match bufBit b1 x with | some v => pure v | none => throw "IndexError"
      let (a, j', bs') ←
        if cc = 0 then pure (lin.getD ((x + 159) % 160) 0, j, bs)
        else do
          let c2 ← match bufBit b2 j with | some v => pure v | none => throw "IndexError"
          if c2 = 0 then pure (lin.getD x 0, j + 1, bs)
          else do
            let (v, r) ← read1 bs
            pure (v, j + 1, r)
      let d ← dumpByte pal a
      let (o, lin', bs'') ← cm3Packed pal b1 b2 k (x + 1) j' (lin.set x a) bs'
      pure (d ++ o, lin', bs'')

def cm3Line (pal lin bs : Bytes) : Except String (Bytes × Bytes × Bytes) := do
  let (contr, bs) ← read1 bs
  if contr < 128 then
    let (b1, bs) ← readN 20 bs
    let (b2, bs) ← readN contr bs
    cm3Packed pal b1 b2 160 0 0 lin bs
  else
    let (o, rd, bs) ← readDump pal 160 bs
    pure (o, rd, bs)

def cm3Lines (pal : Bytes) : Nat → Bytes → Bytes → Except String (Bytes × Bytes × Bytes)
  | 0, lin, bs => pure ([], lin, bs)
  | k + 1, lin, bs => do
      let (o, lin', bs') ← cm3Line pal lin bs
      let (o2, lin'', bs'') ← cm3Lines pal k lin' bs'
      pure (o ++ o2, lin'', bs'')

def cm3Pages (pal : Bytes) : Nat → Bytes → Bytes → Except String Bytes
  | 0, _, _ => pure []
  | k + 1, lin, bs => do
      let (lines, bs) ← read1 bs
      let (o, lin', bs') ← cm3Lines pal lines lin bs
      let o2 ← cm3Pages pal k lin' bs'
      pure (o ++ o2)

def cm3 (bs : Bytes) : Except String Bytes := do
  let (pictyp, bs) ← read1 bs
  let pages := getbit pictyp 7 + 1
  let (pal, bs) ← readN 16 bs
  let (_, bs) ← readN 12 bs
  let bs := if getbit pictyp 0 ≠ 0 then bs else bs.drop 243
  let body ← cm3Pages pal pages (List.replicate 160 0) bs
  pure (ppmHeader "P6" 320 (pages * 192) ++ body)

/-! ### VEF (the model stops at the palette-index bitmap handed to pypng) -/

/-- `unsquash(slice, count, orig_len)` before the final `[0:orig_len]`;
`n` is `count - i`, the slice is at most `count` bytes long -/
def unsq (sl : Bytes) (n : Nat) : Except String Bytes :=
  match n, sl with
  | 0, _ => pure []
  | _ + 1, [] => throw "IndexError"
  | n + 1, cb :: rest =>
    if cb > 128 then
      match rest with
      | [] => throw "IndexError"
      | v :: rest' => do
          let r ← unsq rest' (n - 1)
          pure (List.replicate (cb - 128) v ++ r)
    else if rest.length < cb then throw "IndexError"
    else do
      let r ← unsq (rest.drop cb) (n - cb)
      pure (rest.take cb ++ r)
termination_by sl.length
decreasing_by all_goals simp_wf <;> omega

/-- the 400-record loop: `pos` is `count_byte` -/
def vefRecords (data : Bytes) (origLen : Nat) : Nat → Nat → Except String Bytes
  | 0, _ => pure []
  | k + 1, pos =>
    match data[pos]? with
    | none => throw "IndexError"
    | some count => do
        let sl := (data.drop (pos + 1)).take count
        let d ← unsq sl count
        let r ← vefRecords data origLen k (pos + count + 1)
        pure (d.take origLen ++ r)

def palAt (pal : Bytes) (i : Nat) : Except String Nat :=
  match pal[i]? with | some v => pure v | none => throw "IndexError"

def vefBitmap (veftype : Nat) (pal : Bytes) : Bytes → Except String Bytes
  | [] => pure []
  | b :: rest => do
      let px ←
        if veftype = 8 then do
          let a ← palAt pal (b / 16); let c ← palAt pal (b % 16); pure [a, c]
        else if veftype = 7 || veftype = 6 then do
          let a ← palAt pal (b / 64); let c ← palAt pal (b / 16 % 4)
          let d ← palAt pal (b / 4 % 4); let e ← palAt pal (b % 4); pure [a, c, d, e]
        else pure []
      let r ← vefBitmap veftype pal rest
      pure (px ++ r)

structure VefOut where
  width : Nat
  height : Nat
  bitmap : Bytes

def vef (data : Bytes) : Except String VefOut := do
  if data.isEmpty then throw "SystemExit"
  let t ← match data[1]? with | some v => pure v | none => throw "IndexError"
  let (width, origLen, veftype) ←
    if t = 0 then pure (320, 80, 8) else if t = 1 then pure (640, 80, 7)
    else if t = 3 then pure (320, 40, 6) else if t = 4 then pure (640, 40, 5)
    else throw "SystemExit"
  let pal := (data.drop 2).take 16
  let image ← if data[0]? = some 128 then vefRecords data origLen 400 18 else pure (data.drop 18)
  let bitmap ← vefBitmap veftype pal image
  pure { width := width, height := 200, bitmap := bitmap }

end CocoVerif.Model.Img
