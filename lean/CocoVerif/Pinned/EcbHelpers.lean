/- PINNED copy of the helper procedures the C20 proofs were developed against (committed).
   `Tie/EcbHelpers.lean` proves that what the translator reads from /repo now is this. -/
import CocoVerif.Model.B09Lib

namespace CocoVerif.Pinned.EcbHelpers
open CocoVerif.Model.B09Lib

def ecb_instr : Proc :=
  { name := "ecb_instr", kinds := ["numeric", "string", "string", "numeric", "numeric"], nparams := 4,
    body := [
      (.assign 4 (.fix (.var 0))),
      (.assign 3 (.num 0)),
      (.while_ (.and_ (.eq (.var 3) (.num 0)) (.le (.var 4) (.add (.sub (.len (.var 1)) (.len (.var 2))) (.num 1)))) [(.ite (.eq (.var 2) (.mid (.var 1) (.var 4) (.len (.var 2)))) [(.assign 3 (.var 4))] []), (.assign 4 (.add (.var 4) (.num 1)))])] }

def ecb_string : Proc :=
  { name := "ecb_string", kinds := ["numeric", "string", "string", "numeric"], nparams := 3,
    body := [
      (.ite (.or_ (.lt (.var 0) (.num 0)) (.eq (.len (.var 1)) (.num 0))) [(.error 52)] []),
      (.assign 2 (.mid (.var 1) (.num 1) (.num 1))),
      (.for_ 3 (.num 2) (.var 0) [(.assign 2 (.add (.var 2) (.mid (.var 2) (.num 1) (.num 1))))]),
      (.ite (.eq (.var 0) (.num 0)) [(.assign 2 (.str "".toList))] [])] }

def ecb_read_filter : Proc :=
  { name := "ecb_read_filter", kinds := ["string", "numeric"], nparams := 2,
    body := [
      (.ite (.eq (.var 0) (.str "".toList)) [(.assign 1 (.num 0))] [(.assign 1 (.val (.var 0)))])] }

/-- `ecb_instr` as it was before the `fix:` commit 90c15e8 (kept for the negation witnesses) -/
def ecb_instr_old : Proc :=
  { name := "ecb_instr", kinds := ["numeric", "string", "string", "numeric", "numeric"], nparams := 4,
    body := [
      (.for_ 4 (.fix (.var 0)) (.sub (.len (.var 1)) (.len (.var 2))) [(.ite (.eq (.var 2) (.mid (.var 1) (.var 4) (.add (.var 4) (.len (.var 2))))) [(.assign 3 (.var 4))] [])])] }

end CocoVerif.Pinned.EcbHelpers
