/- PINNED copy of Gen/Consts.lean: the regular expressions and constants the hand-written models
   Model.ProcBank / Model.Compile / Model.Emit were written against (regenerate with harness/gen_lean.py and review). -/
namespace CocoVerif.Pinned.Consts

/-- (name, pattern text, flags) of the compiled regular expressions -/
def regexes : List (String × String × Nat) := [("PROCEDURE_START_PREFIX", "(?i)procedure\\s+(\\w+)\\s*$", 34), ("INVOKED_PROCEDURE_NAMES", "(?i)\\s*RUN\\s+(\\w+)(?=[^\"]*(?:\"[^\"]*\"[^\"]*)*$)", 34), ("STR_STORAGE_TAG", "(?im)\\:\\s*STRING\\<\\<\\>\\>(?=[^\"\\n]*(?:\"[^\"\\n]*\"[^\"\\n]*)*$)", 42), ("PROCNAME_REGEX", "[a-zA-Z0-9_]+", 32)]
/-- every call `re.<f>(...)` in procbank.py, in source order, with its string-literal arguments -/
def reCalls : List (String × List String) := [("compile", ["(?i)procedure\\s+(\\w+)\\s*$"]), ("compile", ["(?i)\\s*RUN\\s+(\\w+)(?=[^\"]*(?:\"[^\"]*\"[^\"]*)*$)"]), ("compile", ["(?im)\\:\\s*STRING\\<\\<\\>\\>(?=[^\"\\n]*(?:\"[^\"\\n]*\"[^\"\\n]*)*$)"]), ("split", ["[\\r\\n]", "<Name>"]), ("sub", ["<Name>", "<Name>", "<Name>"])]
/-- where a compiled expression is used: (module, expression, method or `arg-of-<function>`), in source order -/
def regexUses : List (String × String × String) := [("procbank.py", "PROCEDURE_START_PREFIX", "match"), ("procbank.py", "INVOKED_PROCEDURE_NAMES", "findall"), ("procbank.py", "STR_STORAGE_TAG", "arg-of-sub"), ("compiler.py", "PROCNAME_REGEX", "fullmatch")]
def defaultStrStorage : Nat := 32
/-- integer literals >= 1000 per module -/
def bigLiterals : List (String × List Nat) := [("elements.py", [32768, 65496, 65497]), ("error_handler.py", [32700]), ("visitors.py", [32699]), ("compiler.py", []), ("configs.py", [32767])]

end CocoVerif.Pinned.Consts
